"""C09 — decoders never read past the declared packet; trailing octets cannot leak in

Table driven: `KINDS` maps a unit kind to (real decoder, canonical fields, reported length, generator of
valid packed units built by *independent* encoders). The canonical field dictionaries are those of the
owning properties' modules (c01 … c20), which their own correspondence checks tie to the Lean JSON.
"""
import random
import struct
from typing import Any, Callable, Dict, Iterator, List, Optional, Tuple

import core
from core import Case, Prop, SelfCheckFailure, exc_category, DOCUMENTED
from gen import hx, unhx, pool, rbytes

from spacepackets.ccsds.spacepacket import SpacePacketHeader
from spacepackets.ccsds.time.cds import CdsShortTimestamp
from spacepackets.ecss.tc import PusTc
from spacepackets.ecss.tm import PusTm
from spacepackets.ecss.pus_17_test import Service17Tm
from spacepackets.ecss.pus_1_verification import Service1Tm, UnpackParams
from spacepackets.ecss.req_id import RequestId
from spacepackets.ecss.fields import PacketFieldEnum
from spacepackets.cfdp.pdu.header import PduHeader
from spacepackets.cfdp.lv import CfdpLv
from spacepackets.cfdp.tlv import (
    CfdpTlv, EntityIdTlv, FlowLabelTlv, FaultHandlerOverrideTlv, FileStoreRequestTlv, FileStoreResponseTlv,
    MessageToUserTlv,
)
from spacepackets.uslp.header import PrimaryHeader, TruncatedPrimaryHeader
from spacepackets.util import ByteFieldGenerator

import props.c01 as c01
import props.c02 as c02
import props.c03 as c03
import props.c05 as c05
import props.c08 as c08
import props.c14 as c14
import props.c15 as c15
import props.c17 as c17
import props.c20 as c20
import props.c06_fixed as c06f
import props.c06_var as c06v
import props.c07 as c07

from spacepackets.cfdp.pdu.ack import AckPdu
from spacepackets.cfdp.pdu.prompt import PromptPdu
from spacepackets.cfdp.pdu.keep_alive import KeepAlivePdu
from spacepackets.cfdp.pdu.nak import NakPdu
from spacepackets.cfdp.pdu.file_data import FileDataPdu
from spacepackets.cfdp.pdu.eof import EofPdu
from spacepackets.cfdp.pdu.finished import FinishedPdu
from spacepackets.cfdp.pdu.metadata import MetadataPdu


def crc16(data: bytes) -> int:
    return c15.crc16(data)


def with_crc(body: bytes) -> bytes:
    return body + crc16(body).to_bytes(2, "big")


# ---------------------------------------------------------------------------------------------
# the table of kinds: real decoder, canonical fields, reported length
# ---------------------------------------------------------------------------------------------
class Kind:
    def __init__(self, name: str, decode: Callable[[bytes, Dict[str, Any]], Any], fields: Callable[[Any], Any],
                 length: Callable[[Any], int], declared: Optional[Callable[[bytes], int]] = None,
                 trailer: Optional[Callable[[Any], Any]] = None):
        self.name = name
        self.trailer = trailer     # the checksum attribute the decoded object exposes (PUS: `crc16`), if any
        self.decode = decode
        self.fields = fields
        self.length = length
        self.declared = declared   # only where the reported length can differ from the declared one


def _fh_fields(o):
    return {"type": int(o.tlv_type), "cc": int(o.condition_code), "hc": int(o.handler_code), "value": hx(o.value),
            "packet_len": int(o.packet_len)}


def _cds_fields(s):
    return {"days": int(s.ccsds_days), "ms": int(s.ms_of_day)}


def _tlv_declared(raw: bytes) -> int:
    return 2 + raw[1] if len(raw) > 1 else 0


KINDS: Dict[str, Kind] = {}


def _reg(k: Kind):
    KINDS[k.name] = k


_reg(Kind("sph", lambda b, c: SpacePacketHeader.unpack(b), c01._fields, lambda h: int(h.header_len)))
_reg(Kind("tc", lambda b, c: PusTc.unpack(b), c02._tc_fields, lambda t: int(t.packet_len), trailer=lambda t: t.crc16))
_reg(Kind("tm", lambda b, c: PusTm.unpack(b, c.get("ts_len", 0)), c03._tm_fields, lambda t: int(t.packet_len),
          trailer=lambda t: t.crc16))
_reg(Kind("s17", lambda b, c: Service17Tm.unpack(b, c.get("ts_len", 0)), lambda s: c03._tm_fields(s.pus_tm),
          lambda s: int(s.pus_tm.packet_len), trailer=lambda s: s.pus_tm.crc16))
def _unpack_params(c) -> UnpackParams:
    """one UnpackParams object per configuration, passed to every decode with that configuration (as programs do)"""
    v = (c.get("ts_len", 0), c.get("step_bytes", 0), c.get("err_bytes", 0))
    return core.REUSE.get(["UnpackParams", v], lambda: UnpackParams(*v))


_reg(Kind("s1", lambda b, c: Service1Tm.unpack(b, _unpack_params(c)),
          c15._s1_fields, lambda s: int(s.pus_tm.packet_len), trailer=lambda s: s.pus_tm.crc16))
_reg(Kind("cds", lambda b, c: CdsShortTimestamp.unpack(b), _cds_fields, lambda s: int(s.len_packed)))
_reg(Kind("req_id", lambda b, c: RequestId.unpack(b), c15._req_fields, lambda r: len(core.pack_stable(r, "RequestId.pack()"))))
_reg(Kind("pfe", lambda b, c: PacketFieldEnum.unpack(b, c.get("pfc", 8)), c15._pfe_fields, lambda f: int(f.len())))
_reg(Kind("cfdp_hdr", lambda b, c: PduHeader.unpack(b), c05._fields, lambda h: int(h.header_len)))
_reg(Kind("lv", lambda b, c: CfdpLv.unpack(b), c08._lv_fields, lambda l: int(l.packet_len)))
_reg(Kind("tlv", lambda b, c: CfdpTlv.unpack(b), c08._tlv_fields, lambda t: int(t.packet_len)))
_reg(Kind("entity_id", lambda b, c: EntityIdTlv.unpack(b), c08._tlv_fields, lambda t: int(t.packet_len)))
_reg(Kind("flow_label", lambda b, c: FlowLabelTlv.unpack(b), c08._tlv_fields, lambda t: int(t.packet_len)))
_reg(Kind("msg_to_user", lambda b, c: MessageToUserTlv.unpack(b), c08._tlv_fields, lambda t: int(t.packet_len)))
_reg(Kind("fault_handler", lambda b, c: FaultHandlerOverrideTlv.unpack(b), _fh_fields, lambda t: int(t.packet_len)))
_reg(Kind("fs_request", lambda b, c: FileStoreRequestTlv.unpack(b), c08._fsreq_fields, lambda t: int(t.packet_len),
          declared=_tlv_declared))
_reg(Kind("fs_response", lambda b, c: FileStoreResponseTlv.unpack(b), c08._fsresp_fields, lambda t: int(t.packet_len),
          declared=_tlv_declared))
_reg(Kind("uslp_primary", lambda b, c: PrimaryHeader.unpack(b, c.get("version", 12)), c17._phdr_fields,
          lambda h: int(h.len())))
_reg(Kind("uslp_truncated", lambda b, c: TruncatedPrimaryHeader.unpack(b, c.get("version", 12)), c17._thdr_fields,
          lambda h: int(h.len())))
_reg(Kind("byte_field", lambda b, c: ByteFieldGenerator.from_bytes(c.get("width", 1), b), c20._views,
          lambda f: int(f.byte_len)))


# ---------------------------------------------------------------------------------------------
# implementation ops
# ---------------------------------------------------------------------------------------------
def _verdict(k: Kind, cfg, buf: bytes, want) -> str:
    """decode `buf` with the real decoder and compare the canonical fields with `want`; documented
    refusals are reported as a value, undocumented exceptions propagate (and are reported as such)"""
    try:
        got = k.fields(k.decode(buf, cfg))
    except SelfCheckFailure:
        raise
    except BaseException as e:  # noqa
        cat = exc_category(e)
        if cat in DOCUMENTED:
            return "err:" + cat
        raise
    return "same" if got == want else "differs"


def op_c09_unit(a):
    k = KINDS[a["kind"]]
    cfg = a.get("cfg") or {}
    unit = unhx(a["unit"])
    raw = unit + unhx(a["suffix"])
    alt = unhx(a["alt"])
    obj = k.decode(raw, cfg)
    # (the units decoded by the previous lines of this kind must still show what they showed: decoding is a function
    # of the octets, the decoded objects share nothing)
    f = core.ISOLATION.check("C09.unit." + a["kind"], obj, k.fields)
    n = k.length(obj)
    declared = n if k.declared is None else int(k.declared(raw))
    out = {"fields": f, "len": n, "declared": declared, "inside": n <= len(raw),
           "prefix": _verdict(k, cfg, raw[:n], f), "extended": _verdict(k, cfg, raw[:n] + alt, f)}
    # ---- the property at this point of its quantifier, on the real code alone ----
    m = declared          # the length the unit itself declares
    what = f"{a['kind']}: "
    if n != m:
        # MUST HOLD (C09, first sentence): N is "the length the unit itself declares and the decoded object
        # reports". An accepted unit whose object reports another length than the unit declares cannot be split
        # off by the reported length.
        v = _verdict(k, cfg, raw[:n], f) if n <= len(raw) else "beyond the buffer"
        raise SelfCheckFailure(what + f"accepted; the unit declares {m} octets but the decoded object reports {n} "
                               f"(decoding the first {n} octets gives '{v}'): it cannot be split off by its reported length")
    if m > len(raw):
        raise SelfCheckFailure(what + f"accepted, but the declared/reported length {m} exceeds the buffer ({len(raw)} octets)")
    v = _verdict(k, cfg, raw[:m], f)
    if v != "same":
        raise SelfCheckFailure(what + f"decoding only the first {m} octets (the unit itself) gives '{v}', not the object decoded from the longer buffer")
    if k.trailer is not None:
        # the checksum the decoded object exposes is part of the result: it is the unit's own trailer,
        # whatever follows in the buffer
        t = k.trailer(obj)
        if t is not None and bytes(t) != raw[m - 2:m]:
            raise SelfCheckFailure(what + f"the decoded object's crc16 ({bytes(t).hex()}) is not the trailer of the unit ({raw[m - 2:m].hex()})")
    v = _verdict(k, cfg, raw[:m] + alt, f)
    if v != "same":
        raise SelfCheckFailure(what + f"the unit followed by other octets ({len(alt)}) decodes to '{v}', not to the unit")
    # NOTE: no check here may depend on a premise carried in the case ("this unit is packed"): the
    # shrinker could falsify the premise and produce a witness that also fails on correct code. Every
    # check above holds for EVERY accepted buffer (theorems C09_<unit>). That a packed unit reports
    # exactly its own length is enforced by the exact comparison of `len` with the model on
    # expect="valid" cases, where it is a theorem (C09_packed_suffix), not a claim of the generator.
    return out


def _must_report_declared(k: Kind, buf: bytes, n: int):
    if k.declared is not None and int(k.declared(buf)) != n:
        raise SelfCheckFailure(f"{k.name}: accepted; the unit declares {int(k.declared(buf))} octets but the decoded object "
                               f"reports {n}: it cannot be split off by its reported length")


def _kc(entry) -> Tuple[Kind, Dict[str, Any]]:
    return KINDS[entry["kind"]], (entry.get("cfg") or {})


def op_c09_split(a):
    raws = [unhx(r) for r in a["raws"]]
    tail = unhx(a["tail"])
    buf = b"".join(raws) + tail
    units = []
    lens = []
    for entry in a["kinds"]:
        k, cfg = _kc(entry)
        obj = k.decode(buf, cfg)
        n = k.length(obj)
        _must_report_declared(k, buf, n)
        units.append({"fields": k.fields(obj), "len": n})
        lens.append(n)
        buf = buf[n:]
    if a.get("packed"):
        if lens != [len(r) for r in raws]:
            raise SelfCheckFailure(f"split by reported lengths gives unit lengths {lens}, the packed units have {[len(r) for r in raws]}")
        if buf != tail:
            raise SelfCheckFailure("what remains after splitting off the packed units is not the tail")
        for entry, r, u in zip(a["kinds"], raws, units):
            k, cfg = _kc(entry)
            if k.fields(k.decode(r, cfg)) != u["fields"]:
                raise SelfCheckFailure(f"{entry['kind']}: unit decoded from the concatenation differs from the unit decoded alone")
    return {"units": units, "rest": hx(buf)}


def op_c09_stream(a):
    k, cfg = _kc(a)
    raws = [unhx(r) for r in a["raws"]]
    buf = b"".join(raws)
    units = []
    guard = len(buf) + 1
    while len(buf) > 0:
        guard -= 1
        if guard < 0:
            raise SelfCheckFailure("splitting by reported lengths does not terminate")
        obj = k.decode(buf, cfg)
        n = k.length(obj)
        _must_report_declared(k, buf, n)
        if n == 0:
            raise ValueError("unit of reported length 0")
        units.append({"fields": k.fields(obj), "len": n})
        buf = buf[n:]
    if a.get("packed") and [u["len"] for u in units] != [len(r) for r in raws]:
        raise SelfCheckFailure("stream of packed units is not split into those units")
    return {"units": units}


# ---------------------------------------------------------------------------------------------
# CFDP PDU kinds (second half of the statement): decoded as the PDU alone, or refused (documented)
# ---------------------------------------------------------------------------------------------
class PduKind:
    def __init__(self, name: str, decode, fields):
        self.name = name
        self.decode = decode
        self.fields = fields


PDU_KINDS: Dict[str, PduKind] = {k.name: k for k in [
    PduKind("ack", AckPdu.unpack, c06f._ack_fields),
    PduKind("prompt", PromptPdu.unpack, c06f._prompt_fields),
    PduKind("keep_alive", KeepAlivePdu.unpack, c06f._ka_fields),
    PduKind("nak", NakPdu.unpack, c06f._nak_fields),
    PduKind("file_data", FileDataPdu.unpack, c07._pdu_fields),
    PduKind("eof", EofPdu.unpack, c06v._eof_fields),
    PduKind("finished", FinishedPdu.unpack, c06v._fin_fields),
    PduKind("metadata", MetadataPdu.unpack, c06v._md_fields),
]}
MODELLED_PDUS = ["ack", "prompt", "keep_alive", "nak", "file_data", "eof", "finished", "metadata"]


def _cfdp_declared(d: bytes) -> Optional[int]:
    """whole-PDU length the fixed header octets declare (None with fewer than four octets)"""
    if len(d) < 4:
        return None
    return (d[1] << 8 | d[2]) + 4 + 2 * (((d[3] >> 4) & 7) + 1) + ((d[3] & 7) + 1)


def _pdu_try(k: PduKind, buf: bytes):
    """('ok', fields) | ('err', category) for documented refusals; undocumented exceptions propagate"""
    try:
        return "ok", k.fields(k.decode(buf))
    except SelfCheckFailure:
        raise
    except BaseException as e:  # noqa
        cat = exc_category(e)
        if cat in DOCUMENTED:
            return "err", cat
        raise


def _pdu_eval(a) -> Dict[str, Any]:
    """the rule of the Lean op `c09_pdu`, on the real decoder, plus the property at this point of its
    quantifier (every check holds for EVERY accepted buffer: theorems C09_pdu_declared / C09_pdu_trailing)"""
    k = PDU_KINDS[a["kind"]]
    unit, suffix, alt = unhx(a["unit"]), unhx(a["suffix"]), unhx(a["alt"])
    buf = unit + suffix
    declared = _cfdp_declared(buf)
    longer = declared is not None and declared < len(buf)
    trailing = "decoded" if longer else "none"
    try:
        obj = k.decode(buf)
    except BaseException as e:  # noqa
        if longer and exc_category(e) in DOCUMENTED:
            # refusing a buffer that is longer than the PDU it declares is one of the two allowed
            # behaviours: evaluate the declared PDU alone (same rule as the Lean op, wherever the
            # caller split the buffer)
            buf, trailing = buf[:declared], "refused"
            obj = k.decode(buf)
        else:
            raise
    f = core.ISOLATION.check("C09.pdu." + a["kind"], obj, k.fields)
    reported = int(f["packet_len"])
    n = declared if declared is not None else len(buf)     # an accepted buffer has the four fixed header octets
    crc = 2 if int(f["crc"]) == 1 else 0
    what = f"{a['kind']} PDU: "
    if n > len(buf):
        raise SelfCheckFailure(what + f"accepted, but the declared length {n} exceeds the buffer ({len(buf)} octets)")
    if a["kind"] not in ("eof", "finished") and reported != n:
        # EOF and Finished recompute their length from the TLVs they decoded (C06/C11 territory)
        raise SelfCheckFailure(what + f"decoded object reports packet_len {reported}, the header declares {n}")
    st, g = _pdu_try(k, buf[:n])
    prefix = "same" if (st == "ok" and g == f) else ("differs" if st == "ok" else "err:" + g)
    if prefix != "same":
        raise SelfCheckFailure(what + f"decoding exactly the declared PDU ({n} octets) gives '{prefix}', not the PDU decoded from the longer buffer")
    st, g = _pdu_try(k, buf[:n] + alt)
    if st == "ok" and g != f:
        raise SelfCheckFailure(what + f"followed by {len(alt)} other octets the declared PDU decodes to different parameters (trailing octets folded in)")
    return {"fields": f, "len": reported, "declared": n, "data_end": n - crc, "inside": True, "prefix": prefix,
            "extended_ok": True, "trailing": trailing}


def op_c09_pdu(a):
    return _pdu_eval(a)



OPS = {"c09_unit": op_c09_unit, "c09_split": op_c09_split, "c09_stream": op_c09_stream,
       "c09_pdu": op_c09_pdu}


# ---------------------------------------------------------------------------------------------
# independent encoders of valid units (layouts of the standards; nothing of the package is used)
# ---------------------------------------------------------------------------------------------
def enc_sph(version, ptype, shf, apid, flags, count, dlen) -> bytes:
    return struct.pack("!HHH", version << 13 | ptype << 12 | shf << 11 | apid, flags << 14 | count, dlen)


def enc_tc(rng) -> bytes:
    a = c02.rand_args(rng)
    data = unhx(a["data"])
    body = (enc_sph(0, 1, 1, a["apid"], 3, a["count"], len(data) + 6)
            + bytes([0x20 | a["ack"], a["service"], a["subservice"]]) + struct.pack("!H", a["source_id"]) + data)
    return with_crc(body)


def enc_tm_raw(version, apid, count, time_ref, service, sub, msg_counter, dest_id, ts: bytes, src: bytes) -> bytes:
    body = (enc_sph(version, 0, 1, apid, 3, count, 7 + len(ts) + len(src) + 1)
            + bytes([0x20 | time_ref, service, sub]) + struct.pack("!HH", msg_counter, dest_id) + ts + src)
    return with_crc(body)


def enc_tm(rng, service=None, ts=None) -> Tuple[bytes, int]:
    a = c03.rand_args(rng, ts=ts)
    tsb = unhx(a["timestamp"])
    svc = a["service"] if service is None else service
    return enc_tm_raw(a["version"], a["apid"], a["count"], a["time_ref"], svc, a["subservice"], a["msg_counter"],
                      a["dest_id"], tsb, unhx(a["data"])), len(tsb)


def enc_req(r) -> bytes:
    return struct.pack("!HH", r["version"] << 13 | r["ptype"] << 12 | r["shf"] << 11 | r["apid"],
                       r["flags"] << 14 | r["count"])


def enc_s1(rng) -> Tuple[bytes, Dict[str, int]]:
    sub = rng.randint(1, 8)
    sw, ew = rng.choice(c15.WIDTHS), rng.choice(c15.WIDTHS)
    a = c15.s1_args(rng, sub, sw, ew)
    p = a["params"]
    src = enc_req(p["req_id"])
    if p["step_id"] is not None:
        src += p["step_id"]["val"].to_bytes(sw, "big")
    if p["failure"] is not None:
        src += p["failure"]["code"]["val"].to_bytes(ew, "big") + unhx(p["failure"]["data"])
    ts = unhx(a["timestamp"])
    raw = enc_tm_raw(a["version"], a["apid"], a["count"], a["time_ref"], 1, sub, 0, a["dest_id"], ts, src)
    return raw, {"ts_len": len(ts), "step_bytes": sw, "err_bytes": ew}


def enc_tlv(t: int, v: bytes) -> bytes:
    return bytes([t, len(v)]) + v


def enc_fs(rng, response: bool) -> bytes:
    while True:
        if response:
            st = rng.choice(c08.STATUS_NAT)
            action, status = st >> 4, st & 15
            msg = rbytes(rng, rng.choice([0, 0, 1, 5, 12]))
        else:
            action, status, msg = rng.randint(0, 8), 0, None
        first, second = c08.rand_utf8(rng, rng.choice([0, 1, 8, 30])), c08.rand_utf8(rng, rng.choice([0, 1, 8, 30]))
        if c08.fs_fits(action, first, second, msg):
            return enc_tlv(1 if response else 0, c08.fs_value(action, status, first, second, msg))


def gen_unit(kind: str, rng: random.Random) -> Tuple[Dict[str, Any], bytes]:
    """(cfg, octets of one valid packed unit of this kind)"""
    if kind == "sph":
        h = c01.rand_hdr(rng)
        return {}, enc_sph(h["version"], h["ptype"], h["shf"], h["apid"], h["flags"], h["count"], h["dlen"])
    if kind == "tc":
        return {}, enc_tc(rng)
    if kind == "tm":
        raw, n = enc_tm(rng)
        return {"ts_len": n}, raw
    if kind == "s17":
        raw, n = enc_tm(rng, service=17)
        return {"ts_len": n}, raw
    if kind == "s1":
        raw, cfg = enc_s1(rng)
        return cfg, raw
    if kind == "cds":
        return {}, c14._raw(0x40, rng.choice([0, 1, 4383, 65535, rng.randint(0, 65535)]),
                            rng.choice([0, 1, 86_399_999, rng.randint(0, 86_399_999)]))
    if kind == "req_id":
        return {}, enc_req(c15.rand_req(rng))
    if kind == "pfe":
        w = rng.choice(c15.WIDTHS)
        f = c15.rand_pfe(rng, w, exact=rng.random() < 0.7)
        return {"pfc": f["pfc"]}, f["val"].to_bytes(w, "big")
    if kind == "cfdp_hdr":
        return {}, c05.spec_pack(c05.rand_hdr(rng))
    if kind == "lv":
        v = rbytes(rng, rng.choice([0, 0, 1, 2, 8, 16, 40, 255]))
        return {}, bytes([len(v)]) + v
    if kind == "tlv":
        return {}, enc_tlv(rng.choice(c08.TLV_TYPES), rbytes(rng, rng.choice([0, 0, 1, 2, 8, 16, 40, 255])))
    if kind in ("entity_id", "flow_label", "msg_to_user"):
        return {}, enc_tlv(c08.CLS_TYPE[kind], rbytes(rng, rng.choice([0, 1, 2, 4, 8, 16, 30, 255])))
    if kind == "fault_handler":
        return {}, enc_tlv(4, bytes([rng.randint(0, 255)]))
    if kind == "fs_request":
        return {}, enc_fs(rng, False)
    if kind == "fs_response":
        return {}, enc_fs(rng, True)
    if kind == "uslp_primary":
        h = c17.rand_phdr(rng)
        return {"version": 12}, c17.enc_phdr(h)
    if kind == "uslp_truncated":
        return {"version": 12}, c17.enc_common(c17.rand_thdr(rng), 1)
    if kind == "byte_field":
        w = rng.choice([1, 2, 4, 8])
        return {"width": w}, c05.rand_val(rng, w).to_bytes(w, "big")
    raise KeyError(kind)


ALL_KINDS = list(KINDS)


def suffixes(rng: random.Random, kind: str, cfg, raw: bytes) -> List[Tuple[str, bytes]]:
    """the suffix classes of the statement's quantifier"""
    other = rng.choice([k for k in ALL_KINDS if k != kind])
    out = [
        ("empty", b""),
        ("one-octet", rbytes(rng, 1)),
        ("8-octets", rbytes(rng, 8)),                       # a 32-bit segment request
        ("16-octets", rbytes(rng, 16)),                     # a 64-bit segment request
        ("valid-tlv", enc_tlv(rng.choice(c08.TLV_TYPES), rbytes(rng, rng.choice([0, 1, 4, 9])))),
        ("same-kind", gen_unit(kind, rng)[1]),
        ("itself", raw),
        ("other-kind", gen_unit(other, rng)[1]),
        ("random", rbytes(rng, rng.choice([2, 3, 5, 7, 13, 30, 64]))),
        ("crc-trailer", crc16(raw).to_bytes(2, "big")),     # what a CRC over the unit would look like
        ("zeros", bytes(rng.choice([1, 2, 4, 9]))),
        ("ones", b"\xff" * rng.choice([1, 2, 4, 9])),
    ]
    return out


PDU_KEYS = ["fields", "len", "declared", "data_end", "inside", "prefix", "extended_ok"]   # "trailing" is informational


def gen_pdu(kind: str, rng: random.Random, crc: Optional[int] = None, large: Optional[int] = None) -> bytes:
    """octets of one valid PDU: independent encoders for the modelled kinds, the real encoder for the tie-only ones"""
    fix = {}
    if crc is not None:
        fix["crc"] = crc
    if large is not None:
        fix["large"] = large
    if kind == "file_data":
        conf = c07.rand_conf(rng, **fix)
        return c07.spec_fd(c07.rand_args(rng, conf=conf))
    a = c06f.rand_conf(rng, **fix)
    if kind == "ack":
        return c06f.spec_ack(a, rng.choice([4, 5]), rng.choice(c06f.COND_MEMBERS), rng.randint(0, 3))
    if kind == "prompt":
        return c06f.spec_prompt(a, rng.randint(0, 1))
    if kind == "keep_alive":
        return c06f.spec_ka(a, c06f.fss_val(rng, a["large"]))
    if kind == "nak":
        n = rng.choice([0, 0, 1, 2, 3, 7])
        return c06f.spec_nak(a, c06f.fss_val(rng, a["large"]), c06f.fss_val(rng, a["large"]), c06f.rand_segs(rng, a["large"], n))
    if kind == "eof":
        cond = rng.choice([0, 0] + c06f.COND_MEMBERS)
        fault = None if cond == 0 or rng.random() < 0.3 else c06v.rand_fault(rng)
        return c06v.spec_eof(a, cond, c06v.rand_checksum(rng), c06f.fss_val(rng, a["large"]), fault)
    if kind == "finished":
        cond = rng.choice([0, 0] + c06f.COND_MEMBERS)
        fault = None if (cond in c06v.NO_FAULT_CONDS or rng.random() < 0.4) else c06v.rand_fault(rng)
        rs = [c06v.rand_resp(rng) for _ in range(rng.choice([0, 0, 1, 2, 3]))]
        return c06v.spec_fin(a, cond, rng.randint(0, 1), rng.randint(0, 3), rs, fault)
    if kind == "metadata":
        n = rng.choice([None, 0, 1, 2, 3])
        opts = None if n is None else c06v.rand_options(rng, n)
        return c06v.spec_md(a, bool(rng.randint(0, 1)), rng.choice(c06v.CHECKSUM_TYPES), c06f.fss_val(rng, a["large"]),
                            c08.rand_utf8(rng, rng.choice([0, 5, 40])), c08.rand_utf8(rng, rng.choice([0, 5, 40])), opts)
    raise KeyError(kind)


def pdu_suffixes(rng: random.Random, kind: str, raw: bytes) -> List[Tuple[str, bytes]]:
    large = raw[0] & 1
    w = 8 if large else 4
    return [
        ("empty", b""),
        ("one-octet", rbytes(rng, 1)),
        ("8-octets", rbytes(rng, 8)),                              # one 32-bit segment request
        ("16-octets", rbytes(rng, 16)),                            # one 64-bit segment request
        ("segment-request", rbytes(rng, 2 * w)),                   # exactly one request of this PDU's width
        ("valid-tlv", enc_tlv(rng.choice(c08.TLV_TYPES), rbytes(rng, rng.choice([0, 1, 4, 9])))),
        ("fs-response-tlv", enc_fs(rng, True)),
        # what EOF / Finished parse after their fixed parameters: a fault-location (entity id) TLV
        ("entity-id-tlv", enc_tlv(6, rbytes(rng, rng.choice([1, 2, 4, 8])))),
        ("two-tlvs", enc_tlv(6, rbytes(rng, 2)) + enc_tlv(rng.choice(c08.TLV_TYPES), rbytes(rng, 3))),
        ("same-kind", gen_pdu(kind, rng)),
        ("itself", raw),
        ("other-kind", gen_pdu(rng.choice([k for k in MODELLED_PDUS if k != kind]), rng)),
        ("random", rbytes(rng, rng.choice([2, 3, 5, 7, 13, 30, 64]))),
        ("crc-trailer", crc16(raw).to_bytes(2, "big")),            # a valid CRC of the whole PDU, after the PDU
        ("file-data", rbytes(rng, 40)),
    ]


def unit_case(kind: str, cfg, raw: bytes, sfx: bytes, alt: bytes, tag: str, packed: bool = True,
              expect: str = "valid") -> Case:
    op = {"op": "c09_unit", "kind": kind, "cfg": cfg, "unit": hx(raw), "suffix": hx(sfx), "alt": hx(alt)}
    return Case(op, expect, tag=tag)


class C09(Prop):
    id = "C09"
    title = "Decoders never read past the declared packet; trailing octets cannot leak in"
    lean_modules = ["SpVerif.Props.C09"]
    exhaustive_note = ("every unit kind of the table x every suffix class (empty, 1, 8, 16 octets, valid TLV, same kind, "
                       "itself, another kind, random, CRC-trailer look-alike, zeros, ones); all 256 values of the TLV/LV "
                       "length octet against buffers of every length 0..20")
    trusted_base = [
        "C09 theorems are corollaries over the decoder models owned by C01/C02/C03/C05/C08/C14/C15/C17/C20; their "
        "faithfulness is established by those properties' correspondence checks and re-checked here on every unit x suffix",
    ]
    assumptions = []

    def impl_ops(self):
        return OPS

    def table_sync(self):
        d = []
        if SpacePacketHeader.unpack(bytes(6)).header_len != 6:
            d.append("SpacePacketHeader.header_len != 6")
        if CdsShortTimestamp.TIMESTAMP_SIZE != 7:
            d.append("CdsShortTimestamp.TIMESTAMP_SIZE != 7")
        return d

    def nontrivial(self, c: Case) -> bool:
        o = c.op
        if o["op"] == "c09_pdu":
            return True
        if "unit" in o:
            return (o["unit"] + o["suffix"]).strip("0") != ""
        return any(r.strip("0") for r in o.get("raws", []))

    # ------------------------------------------------------------------------------------------
    def cases(self, rng: random.Random, tier: str) -> Iterator[Case]:
        thorough = tier == "thorough"
        per_kind = 600 if thorough else 110
        # --- every valid unit of every kind x every suffix class ---
        for kind in ALL_KINDS:
            for i in range(per_kind):
                cfg, raw = gen_unit(kind, rng)
                sfxs = suffixes(rng, kind, cfg, raw)
                for j, (name, sfx) in enumerate(sfxs):
                    alt = sfxs[(j + 1 + i) % len(sfxs)][1]
                    yield unit_case(kind, cfg, raw, sfx, alt, f"{kind}+{name}")
        # --- boundary sizes of the variable-length kinds ---
        for n in [0, 1, 2, 254, 255]:
            v = rbytes(rng, n)
            for sfx in (b"", b"\x00", rbytes(rng, 9)):
                yield unit_case("lv", {}, bytes([n]) + v, sfx, rbytes(rng, 3), "lv-boundary")
                for t in c08.TLV_TYPES:
                    yield unit_case("tlv", {}, enc_tlv(t, v), sfx, rbytes(rng, 3), "tlv-boundary")
                yield unit_case("entity_id", {}, enc_tlv(6, v), sfx, rbytes(rng, 3), "tlv-boundary")
        for n in range(8):
            for _ in range(6 if thorough else 2):
                h = c17.rand_phdr(rng, vcf_len=n)
                raw = c17.enc_phdr(h)
                for sfx in (b"", rbytes(rng, 1), rbytes(rng, 8)):
                    yield unit_case("uslp_primary", {"version": 12}, raw, sfx, rbytes(rng, 2), f"uslp-vcf{n}")
        for idw in (1, 2, 4, 8):
            for seqw in (1, 2, 4, 8):
                raw = c05.spec_pack(c05.rand_hdr(rng, idw, seqw))
                for sfx in (b"", rbytes(rng, 1), rbytes(rng, 8), raw):
                    yield unit_case("cfdp_hdr", {}, raw, sfx, rbytes(rng, 5), "cfdp-widths")
        for ts in c03.TS_LENS + [30]:
            raw, n = enc_tm(rng, ts=ts)
            for sfx in (b"", rbytes(rng, 2), raw):
                yield unit_case("tm", {"ts_len": n}, raw, sfx, rbytes(rng, 4), f"tm-ts{ts}")
        for big in ([9000] if not thorough else [65528, 65000, 40000]):
            a = c02.rand_args(rng, big)
            data = unhx(a["data"])
            body = (enc_sph(0, 1, 1, a["apid"], 3, a["count"], len(data) + 6)
                    + bytes([0x20 | a["ack"], a["service"], a["subservice"]]) + struct.pack("!H", a["source_id"]) + data)
            raw = with_crc(body)
            yield unit_case("tc", {}, raw, rbytes(rng, 3), rbytes(rng, 2), "tc-max-size")
        # --- every accepted buffer, not only packed ones: the decoder is run with a configuration
        #     different from the packed one, on perturbed units and on random octets ---
        yield from self.any_cases(rng, thorough)
        # --- splitting concatenations by the reported lengths ---
        yield from self.split_cases(rng, thorough)
        # --- second half: complete CFDP PDUs followed by further octets ---
        yield from self.pdu_cases(rng, thorough)

    def any_cases(self, rng, thorough) -> Iterator[Case]:
        n = 400 if thorough else 70
        for kind in ALL_KINDS:
            for _ in range(n):
                cfg, raw = gen_unit(kind, rng)
                sfx = rbytes(rng, rng.choice([0, 1, 2, 8, 20]))
                buf = bytearray(raw + sfx)
                mode = rng.randint(0, 5)
                if mode == 0 and len(buf) > 0:            # substitute a length-ish octet
                    pos = rng.choice([p for p in (0, 1, 2, 3, 4, 5, 6) if p < len(buf)])
                    buf[pos] = rng.choice([0, 1, 2, 0x7F, 0x80, 0xFF, (buf[pos] + 1) & 0xFF, (buf[pos] - 1) & 0xFF])
                elif mode == 1:                            # truncate
                    buf = buf[: rng.randint(0, len(buf))]
                elif mode == 2:                            # another configuration
                    cfg = dict(cfg)
                    for key, vals in (("ts_len", [0, 1, 7, 12]), ("step_bytes", [1, 2, 4, 8]), ("err_bytes", [1, 2, 4, 8]),
                                      ("pfc", [8, 16, 32, 64, 12, 7, 0, 3]), ("width", [1, 2, 4, 8, 0, 3]),
                                      ("version", [12, 11, 0])):
                        if key in cfg:
                            cfg[key] = rng.choice(vals)
                elif mode == 3:                            # random octets
                    buf = bytearray(rbytes(rng, rng.randint(0, 24)))
                # modes 4, 5: the packed unit with suffix, but decoded as ANOTHER kind that may accept it
                k2 = kind
                if mode >= 4:
                    k2 = rng.choice(["tlv", "lv", "sph", "req_id", "cds", "byte_field", "pfe", "cfdp_hdr", "entity_id",
                                     "fs_request", "fs_response", "fault_handler", "uslp_truncated", "uslp_primary"])
                    cfg = {"pfc": rng.choice([8, 16, 32, 64]), "width": rng.choice([1, 2, 4, 8]), "version": 12}
                yield Case({"op": "c09_unit", "kind": k2, "cfg": cfg, "unit": hx(bytes(buf)), "suffix": "",
                            "alt": hx(rbytes(rng, rng.choice([1, 4, 9])))}, "any", tag=f"any-{k2}-mode{min(mode, 4)}")
        # all 256 values of the length octet of TLV / LV against short buffers of every length
        for ln in range(0, 21, 1 if thorough else 3):
            body = rbytes(rng, ln)
            for v in range(256):
                if not thorough and v > 24 and v % 16 not in (0, 15):
                    continue
                yield Case({"op": "c09_unit", "kind": "lv", "cfg": {}, "unit": hx(bytes([v]) + body), "suffix": "",
                            "alt": "a5"}, "any", tag="lv-length-sweep")
                yield Case({"op": "c09_unit", "kind": "tlv", "cfg": {}, "unit": hx(bytes([rng.choice(c08.TLV_TYPES), v]) + body),
                            "suffix": "", "alt": "a5"}, "any", tag="tlv-length-sweep")
        # filestore TLVs whose value field holds more than the names ("slack"). MUST HOLD: if such a TLV is accepted
        # its object has to report the declared length (otherwise it cannot be split off by the reported length);
        # refusing it is fine. On a tree where it is accepted with a shorter reported length this is a VIOLATION.
        for _ in range(200 if thorough else 40):
            resp = rng.random() < 0.5
            raw = bytearray(enc_fs(rng, resp))
            extra = rbytes(rng, rng.choice([1, 2, 3, 8]))
            if raw[1] + len(extra) <= 255:
                raw[1] += len(extra)
                raw += extra
            yield Case({"op": "c09_unit", "kind": "fs_response" if resp else "fs_request", "cfg": {},
                        "unit": hx(bytes(raw)), "suffix": hx(rbytes(rng, rng.choice([0, 1, 5]))),
                        "alt": hx(rbytes(rng, 3))}, "any", tag="fs-slack")

    def pdu_cases(self, rng, thorough) -> Iterator[Case]:
        per = 160 if thorough else 28
        for kind in MODELLED_PDUS:
            op, keys = "c09_pdu", PDU_KEYS
            for i in range(per):
                # every CRC x large-file combination in turn: the CRC-on configurations are the ones in
                # which "to the end of the buffer" and "to the end of the parameters" differ
                raw = gen_pdu(kind, rng, crc=i & 1, large=(i >> 1) & 1)
                sfxs = pdu_suffixes(rng, kind, raw)
                for j, (name, sfx) in enumerate(sfxs):
                    alt = sfxs[(j + 1 + i) % len(sfxs)][1] or b"\x5a"
                    yield Case({"op": op, "kind": kind, "unit": hx(raw), "suffix": hx(sfx), "alt": hx(alt)}, "valid",
                               tag=f"pdu-{kind}+{name}", keys=keys)
        # CRC-flagged PDUs whose own trailer reads as what the decoder parses last (a TLV header "type, length" for
        # Metadata / Finished / EOF, the start of a segment request for NAK), followed by octets that complete that item
        # and by long continuations: the trailer and what follows it are not parameters
        yield from self.trailer_cases(rng, thorough)
        # every accepted buffer, not only packed ones: perturbed PDUs and random octets
        for kind in MODELLED_PDUS:
            for _ in range(200 if thorough else 40):
                buf = bytearray(gen_pdu(kind, rng) + rbytes(rng, rng.choice([0, 0, 1, 8, 20])))
                mode = rng.randint(0, 3)
                if mode == 0:
                    pos = rng.randrange(min(len(buf), 12))
                    buf[pos] = rng.choice([0, 1, 0x7F, 0x80, 0xFF, (buf[pos] + 1) & 0xFF, (buf[pos] - 1) & 0xFF])
                elif mode == 1:
                    buf = buf[: rng.randint(0, len(buf))]
                elif mode == 2:
                    buf[1], buf[2] = 0, rng.randint(0, 40)          # declared data-field length rewritten
                k2 = kind if rng.random() < 0.7 else rng.choice(MODELLED_PDUS)
                yield Case({"op": "c09_pdu", "kind": k2, "unit": hx(bytes(buf)), "suffix": "", "alt": hx(rbytes(rng, 3))},
                           "any", tag=f"pdu-any-{k2}", keys=PDU_KEYS)

    def trailer_cases(self, rng, thorough) -> Iterator[Case]:
        def emit(kind, raw, sfxs, tag):
            for j, sfx in enumerate(sfxs):
                alt = sfxs[(j + 1) % len(sfxs)] or b"\x5a"
                yield Case({"op": "c09_pdu", "kind": kind, "unit": hx(raw), "suffix": hx(sfx), "alt": hx(alt)}, "valid",
                           tag=tag, keys=PDU_KEYS)

        reps = 12 if thorough else 2
        tlv_types = {"metadata": c08.TLV_TYPES, "finished": [1, 6, 6], "eof": [6]}
        for kind in ("metadata", "finished", "eof"):
            for i in range(reps * (len(c08.TLV_TYPES) if kind == "metadata" else 3)):
                raw = gen_pdu(kind, rng, crc=1, large=i & 1)
                t = tlv_types[kind][i % len(tlv_types[kind])]
                # the trailer is an empty TLV of a type the decoder knows
                fitted = c06v.refit_trailer(raw, t << 8)
                yield from emit(kind, fitted, [b"", bytes(2), rbytes(rng, 2), rbytes(rng, 300), enc_tlv(6, rbytes(rng, 2)),
                                               gen_pdu(rng.choice(MODELLED_PDUS), rng), fitted], f"pdu-{kind}-trailer-empty-tlv")
                # the trailer is the header of a TLV whose value are the octets after the PDU
                if kind == "finished" and t == 1:
                    resp = enc_fs(rng, True)
                    hdr, value = int.from_bytes(resp[:2], "big"), resp[2:]
                else:
                    value = rbytes(rng, rng.choice([1, 2, 4, 8, rng.randint(1, 60)]))
                    hdr = t << 8 | len(value)
                fitted = c06v.refit_trailer(raw, hdr)
                yield from emit(kind, fitted, [value, value + bytes(2), value + rbytes(rng, 2), value + rbytes(rng, 300),
                                               value + enc_tlv(6, rbytes(rng, 1)), value[:-1]], f"pdu-{kind}-trailer-tlv-header")
        for i in range(reps * 4):
            large = i & 1
            w = 8 if large else 4
            raw = gen_pdu("nak", rng, crc=1, large=large)
            # the two trailer octets and the suffix together are whole segment requests (also when the last two octets
            # of the buffer are taken for the trailer)
            sfxs = [rbytes(rng, 2 * w - 2), rbytes(rng, 2 * w), rbytes(rng, 4 * w - 2), rbytes(rng, 4 * w), rbytes(rng, 2 * w + 2),
                    rbytes(rng, 300), rbytes(rng, 2 * w * 20 - 2)]
            yield from emit("nak", raw, sfxs, "pdu-nak-trailer-segment-request")
        for i in range(reps * 2):
            raw = gen_pdu("file_data", rng, crc=1, large=i & 1)
            yield from emit("file_data", raw, [rbytes(rng, 2), rbytes(rng, 300), raw], "pdu-file_data-long-suffix")
        for kind in ("ack", "prompt", "keep_alive"):
            for i in range(reps):
                raw = gen_pdu(kind, rng, crc=i & 1)
                yield from emit(kind, raw, [rbytes(rng, 300), rbytes(rng, 2)], f"pdu-{kind}-long-suffix")

    def split_cases(self, rng, thorough) -> Iterator[Case]:
        reps = 60 if thorough else 14
        for kind in ALL_KINDS:
            for _ in range(reps):
                cnt = rng.choice([0, 1, 2, 3, 4, 6, 9])
                units = [gen_unit(kind, rng) for _ in range(cnt)]
                # one configuration per buffer for the kinds whose decoder is configured
                if cnt and units[0][0]:
                    cfg0 = units[0][0]
                    units = [units[0]]
                    tries = 0
                    while len(units) < cnt and tries < 400:
                        tries += 1
                        u = gen_unit(kind, rng)
                        if u[0] == cfg0:
                            units.append(u)
                cfgs = [{"kind": kind, "cfg": c} for c, _ in units]
                raws = [hx(r) for _, r in units]
                tail = rng.choice([b"", b"", rbytes(rng, 1), rbytes(rng, 3), gen_unit(kind, rng)[1][:-1]])
                yield Case({"op": "c09_split", "kinds": cfgs, "raws": raws, "tail": hx(tail), "packed": True}, "valid",
                           tag=f"split-{kind}")
                if units:
                    yield Case({"op": "c09_stream", "kind": kind, "cfg": units[0][0], "raws": raws, "packed": True},
                               "valid", tag=f"stream-{kind}")
        # mixed kinds
        for _ in range(600 if thorough else 120):
            cnt = rng.choice([2, 3, 4, 5, 8, 12])
            ks = [rng.choice(ALL_KINDS) for _ in range(cnt)]
            units = [gen_unit(k, rng) for k in ks]
            cfgs = [{"kind": k, "cfg": c} for k, (c, _) in zip(ks, units)]
            yield Case({"op": "c09_split", "kinds": cfgs, "raws": [hx(r) for _, r in units],
                        "tail": hx(rbytes(rng, rng.choice([0, 0, 1, 4]))), "packed": True}, "valid", tag="split-mixed")
        # a unit in the middle is damaged: both sides must stop (or go on) alike
        for _ in range(300 if thorough else 60):
            kind = rng.choice(ALL_KINDS)
            units = [gen_unit(kind, rng) for _ in range(3)]
            if units[0][0] != units[1][0] or units[1][0] != units[2][0]:
                continue
            raws = [bytearray(r) for _, r in units]
            if len(raws[1]) == 0:
                continue
            pos = rng.randrange(len(raws[1]))
            raws[1][pos] ^= 1 << rng.randint(0, 7)
            cfgs = [{"kind": kind, "cfg": units[0][0]}] * 3
            yield Case({"op": "c09_split", "kinds": cfgs, "raws": [hx(bytes(r)) for r in raws], "tail": ""}, "any",
                       tag="split-damaged")


PROP = C09()
