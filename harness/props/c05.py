"""C05 — CFDP fixed PDU header (CCSDS 727.0-B-5)"""
import random
from typing import Any, Dict, Iterator, List

import core
from core import Case, Prop, SelfCheckFailure, pack_stable, ISOLATION, REUSE
from gen import hx, unhx, pool, out_pool, rbytes

import spacepackets.cfdp.defs as cdefs
from spacepackets.cfdp.pdu.header import PduHeader, AbstractPduBase
from spacepackets.cfdp.conf import PduConfig
from spacepackets.cfdp.defs import (
    PduType, Direction, TransmissionMode, CrcFlag, LargeFileFlag, SegmentationControl, SegmentMetadataFlag,
    LenInBytes,
)
from spacepackets.util import UnsignedByteField, ByteFieldGenerator
from spacepackets.crc import CRC16_CCITT_FUNC

WIDTHS = [1, 2, 4, 8]
FLAGS = ["ptype", "dir", "mode", "crc", "large", "segctrl", "segmeta"]
HDR_KEYS = ["ptype", "segmeta", "dlen", "src_w", "src_v", "dst_w", "dst_v", "seq_w", "seq_v", "mode", "large",
            "crc", "dir", "segctrl"]
# what lives in the PduConfig object (the rest of HDR_KEYS lives on the header object itself)
CONF_KEYS = ["src_w", "src_v", "dst_w", "dst_v", "seq_w", "seq_v", "mode", "large", "crc", "dir", "segctrl"]
CONF_FLAGS = ["mode", "large", "crc", "dir", "segctrl"]


# --------------------------------------------------------------------------------------------
# implementation ops (public API only)
# --------------------------------------------------------------------------------------------
def _m(E, code):
    """the member an application writes for the flag value `code`: the member of E with the STANDARD NAME of the code
    (core.std_member; `E(code)` for a code without a standard name, ValueError for a non-member as before)"""
    return core.std_member(E, code, strict=True)


_code = core.std_code    # int(flag read back), after `flag == E.NAME  <=>  the value is the standard's code for NAME`


def _bf(v: int, w: int, via: int = 0):
    if via == 1 and w in WIDTHS:
        return ByteFieldGenerator.from_int(w, v)
    return UnsignedByteField(v, w)


def _conf(a) -> PduConfig:
    via = a.get("via", 0)
    src = _bf(a["src_v"], a["src_w"], via)
    dst = _bf(a["dst_v"], a["dst_w"], via)
    seq = _bf(a["seq_v"], a["seq_w"], via)
    # TYPE-COERCION dimension (core.py "forms"): the five one-bit flags of the configuration are IntEnum members in the library;
    # a program may equally hold the plain int or the bool of the same value (PduConfig is an unvalidated dataclass and every
    # encoder computes with the VALUE). forms["conf"] = "int" / "bool" hands all five over in that form; the Lean op does not
    # read the key, so the octets / fields the model proves stay the reference whatever the form.
    cf = (a.get("forms") or {}).get("conf")
    _f = (lambda cls, v: int(v)) if cf == "int" else (lambda cls, v: bool(v)) if cf == "bool" else _m
    return PduConfig(source_entity_id=src, dest_entity_id=dst, transaction_seq_num=seq,
                     trans_mode=_f(TransmissionMode, a["mode"]), file_flag=_f(LargeFileFlag, a["large"]),
                     crc_flag=_f(CrcFlag, a["crc"]), direction=_f(Direction, a["dir"]),
                     seg_ctrl=_f(SegmentationControl, a["segctrl"]))


CONF_FORMS = ("member", "int", "bool")


def conf_form_variants(cases, rng, share: float = 0.08, ops=None):
    """the generated stream unchanged, followed by a share of its 'valid' cases that carry a configuration once more with
    the five configuration flags as plain ints / bools (own random stream: the stream itself is the same with and without)"""
    from core import forms_rng, case_with_forms
    frng = forms_rng(rng)
    later = []
    for c in cases:
        yield c
        o = c.op
        if c.expect == "valid" and "forms" not in o and all(k in o for k in CONF_KEYS) and (ops is None or o.get("op") in ops) \
                and frng.random() < share:
            later.append(case_with_forms(c, {"conf": frng.choice(CONF_FORMS[1:])}))
    yield from later


# ---- state leaking between calls / objects: shared helpers (also used by props/c06_*.py, c07.py, c12.py) ----
def conf_view(c: PduConfig) -> Dict[str, Any]:
    """what a caller sees of a configuration object (public attributes only)"""
    s, d, q = c.source_entity_id, c.dest_entity_id, c.transaction_seq_num
    return {"src_w": int(s.byte_len), "src_v": int(s.value), "dst_w": int(d.byte_len), "dst_v": int(d.value),
            "seq_w": int(q.byte_len), "seq_v": int(q.value), "mode": _code(TransmissionMode, c.trans_mode),
            "large": _code(LargeFileFlag, c.file_flag), "crc": _code(CrcFlag, c.crc_flag), "dir": _code(Direction, c.direction),
            "segctrl": _code(SegmentationControl, c.seg_ctrl)}


def shared_conf(a) -> PduConfig:
    """the PduConfig for the case's parameters as a program holds it: built once, handed to many constructors
    (the same instance for cases with equal configuration parameters). Only for ops that call no setter."""
    return REUSE.get(["PduConfig", [a[k] for k in CONF_KEYS], a.get("via", 0), (a.get("forms") or {}).get("conf")], lambda: _conf(a))


def conf_untouched(conf: PduConfig, a, what: str):
    """C11 clause seen from the encoders: constructing / packing does not modify the caller's configuration"""
    now, fresh = conf_view(conf), conf_view(_conf(a))
    if now != fresh:
        diff = sorted(k for k in fresh if now.get(k) != fresh[k])
        raise SelfCheckFailure(f"{what} modified the PduConfig object the caller passed in (fields {diff})")


_ROT = {1: 2, 2: 4, 4: 8, 8: 1}


def contrast_conf(a) -> Dict[str, Any]:
    """`a` with every field of the configuration changed: all five flags, both widths, all three values"""
    b = dict(a)
    for k in CONF_FLAGS:
        b[k] = 1 - a[k]
    idw, sw = _ROT.get(a["src_w"], 1), _ROT.get(a["seq_w"], 1)
    b.update(src_w=idw, dst_w=idw, seq_w=sw, src_v=(a["src_v"] + 1) % (1 << (8 * idw)),
             dst_v=(a["dst_v"] + 1) % (1 << (8 * idw)), seq_v=(a["seq_v"] + 1) % (1 << (8 * sw)))
    return b


def contrast_header(f) -> bytes:
    """octets of a valid header (independent encoder) that differs from the header with field view `f` in every
    configuration field and in type, segment-metadata flag and data-field length"""
    b = contrast_conf(f)
    b.update(ptype=1 - f["ptype"], segmeta=1 - f["segmeta"], dlen=(f["dlen"] + 0x0101) % 65536)
    return spec_pack(b)


def decoded_alone(obj, view, f, what: str, before=None):
    """decoded objects do not share state - self-contained form: decoding ANOTHER header (every configuration field
    different from the header fields in `f`) leaves the object decoded before as it was (`before` = view(obj), default f)"""
    before = f if before is None else before
    PduHeader.unpack(contrast_header(f))
    try:
        again = view(obj)
    except SelfCheckFailure as e:
        raise SelfCheckFailure(f"{what}: after another header was decoded the object decoded before is inconsistent: {e}")
    if again != before:
        diff = sorted(k for k in before if again.get(k) != before[k])
        raise SelfCheckFailure(f"{what}: the decoded object changed when another header was decoded afterwards "
                               f"(fields {diff}): decoded objects share state")


# ---- the application modifies a PDU (header) it decoded, then decodes again (also used by props/c04.py, c12.py) ----
MUT_ALL = 1023


def mutate_cfdp(mask: int):
    """a `mutate` for core.redecode_after_mutation on anything that has the public `pdu_header` view (PduHeader itself and
    the eight PDU classes): changes, through the documented setters only, what the bits of `mask` say -
    1 crc_flag, 2 file_flag, 4 direction, 8 transmission_mode, 16 seg_ctrl, 32 entity IDs (other width and values),
    64 transaction sequence number, 128 the object's own crc_flag / file_flag setters (file directives),
    256 pdu_type + segment_metadata_flag, 512 pdu_data_field_len.  Returns the undo."""
    def mutate(obj):
        h = obj.pdu_header
        ts = core.tolerant_set
        old = {n: getattr(h, n) for n in ("crc_flag", "file_flag", "direction", "transmission_mode", "seg_ctrl",
                                          "transaction_seq_num", "pdu_type", "segment_metadata_flag", "pdu_data_field_len")}
        old_src, old_dst = h.source_entity_id, h.dest_entity_id
        if mask & 1:
            ts(h, "crc_flag", _m(CrcFlag, 1 - int(old["crc_flag"])))
        if mask & 2:
            ts(h, "file_flag", _m(LargeFileFlag, 1 - int(old["file_flag"])))
        if mask & 4:
            ts(h, "direction", _m(Direction, 1 - int(old["direction"])))
        if mask & 8:
            ts(h, "transmission_mode", _m(TransmissionMode, 1 - int(old["transmission_mode"])))
        if mask & 16:
            ts(h, "seg_ctrl", _m(SegmentationControl, 1 - int(old["seg_ctrl"])))
        if mask & 32:
            w = _ROT.get(int(old_src.byte_len), 1)
            try:
                h.set_entity_ids(source_entity_id=UnsignedByteField((int(old_src.value) + 1) % (1 << (8 * w)), w),
                                 dest_entity_id=UnsignedByteField((int(old_dst.value) + 3) % (1 << (8 * w)), w))
            except Exception:  # noqa
                pass
        if mask & 64:
            w = _ROT.get(int(old["transaction_seq_num"].byte_len), 1)
            ts(h, "transaction_seq_num", UnsignedByteField((int(old["transaction_seq_num"].value) + 1) % (1 << (8 * w)), w))
        if mask & 128 and obj is not h:
            ts(obj, "crc_flag", _m(CrcFlag, 1 - int(old["crc_flag"])))
            ts(obj, "file_flag", _m(LargeFileFlag, 1 - int(old["file_flag"])))
        if mask & 256:
            ts(h, "pdu_type", _m(PduType, 1 - int(old["pdu_type"])))
            ts(h, "segment_metadata_flag", _m(SegmentMetadataFlag, 1 - int(old["segment_metadata_flag"])))
        if mask & 512:
            ts(h, "pdu_data_field_len", (int(old["pdu_data_field_len"]) + 0x0101) % 65536)

        def undo():
            for n, v in old.items():
                ts(h, n, v)
            try:
                h.set_entity_ids(source_entity_id=old_src, dest_entity_id=old_dst)
            except Exception:  # noqa
                pass
        return undo
    return mutate


def _redecode_probe(raw: bytes, mask: int):
    """decode, modify the decoded header through its setters, decode again: the same octets, the same header followed by
    other octets, and the header that differs in every field"""
    others = [raw + b"\x5a\xa5"]
    try:
        n = int(AbstractPduBase.header_len_from_raw(raw))
        others.append(raw[:n])
        others.append(contrast_header(_fields(PduHeader.unpack(raw))))
    except Exception:  # noqa
        pass
    core.redecode_after_mutation(PduHeader.unpack, raw, _fields, mutate_cfdp(mask), "PduHeader.unpack", others)


def _hdr(a, conf: PduConfig = None) -> PduHeader:
    return PduHeader(pdu_type=_m(PduType, a["ptype"]), segment_metadata_flag=_m(SegmentMetadataFlag, a["segmeta"]),
                     pdu_data_field_len=a["dlen"], pdu_conf=_conf(a) if conf is None else conf)


def _bf_view(f, what: str):
    w, v = int(f.byte_len), int(f.value)
    if len(f) != w or int(f) != v:
        raise SelfCheckFailure(f"{what}: len()/int() disagree with byte_len/value")
    return w, v


def _fields(h: PduHeader) -> Dict[str, Any]:
    sw, sv = _bf_view(h.source_entity_id, "source id")
    dw, dv = _bf_view(h.dest_entity_id, "destination id")
    qw, qv = _bf_view(h.transaction_seq_num, "sequence number")
    return {"ptype": _code(PduType, h.pdu_type), "segmeta": _code(SegmentMetadataFlag, h.segment_metadata_flag),
            "dlen": int(h.pdu_data_field_len),
            "src_w": sw, "src_v": sv, "dst_w": dw, "dst_v": dv, "seq_w": qw, "seq_v": qv,
            "mode": _code(TransmissionMode, h.transmission_mode), "large": _code(LargeFileFlag, h.file_flag),
            "crc": _code(CrcFlag, h.crc_flag), "dir": _code(Direction, h.direction),
            "segctrl": _code(SegmentationControl, h.seg_ctrl),
            "header_len": int(h.header_len), "packet_len": int(h.packet_len),
            "conf_header_len": int(h.pdu_conf.header_len()), "large_set": bool(h.large_file_flag_set)}


def _packed(h: PduHeader) -> Dict[str, Any]:
    """fields + octets; property clauses visible on the real code alone are checked here"""
    f = _fields(h)
    raw = pack_stable(h, "PduHeader.pack()")
    if len(raw) != f["header_len"]:
        raise SelfCheckFailure(f"len(pack())={len(raw)} != header_len={f['header_len']}")
    if int(AbstractPduBase.header_len_from_raw(raw)) != f["header_len"]:
        raise SelfCheckFailure("header_len_from_raw(pack()) != header_len")
    h2 = PduHeader.unpack(raw)
    if _fields(h2) != f:
        raise SelfCheckFailure("unpack(pack(h)) has different field values")
    if not (h2 == h) or not (h == h2):
        raise SelfCheckFailure("unpack(pack(h)) != h under ==")
    if bytes(h2.pack()) != raw:
        raise SelfCheckFailure("re-packing the decoded header does not reproduce the octets")
    f["raw"] = hx(raw)
    return f


def op_hdr_bf(a):
    f = UnsignedByteField(a["v"], a["w"])
    w, v = _bf_view(f, "byte field")
    return {"w": w, "v": v, "raw": hx(pack_stable(f, "UnsignedByteField.as_bytes", packer=lambda: f.as_bytes))}


def op_hdr_bf_from_bytes(a):
    f = ByteFieldGenerator.from_bytes(a["w"], unhx(a["raw"]))
    w, v = _bf_view(f, "byte field")
    return {"w": w, "v": v, "raw": hx(pack_stable(f, "UnsignedByteField.as_bytes", packer=lambda: f.as_bytes))}


def op_hdr_conf_len(a):
    conf = shared_conf(a)
    n = int(conf.header_len())
    conf_untouched(conf, a, "PduConfig.header_len()")
    return {"len": n}


def op_hdr_new(a):
    conf = shared_conf(a)
    f = _fields(_hdr(a, conf))
    conf_untouched(conf, a, "PduHeader(...)")
    return f


def _poison(a):
    """calls that fail (an unencodable header, a cut / foreign buffer), caught the way a program catches them - key
    "poison" of a case; what is packed / decoded afterwards must not know about them. Fresh configuration objects only."""
    def big_len():
        h = _hdr(a)
        h.pdu_data_field_len = 1 << 20
        h.pack()

    def no_seq_num():
        h = _hdr(a)
        h.transaction_seq_num = None     # pack() fails after the first octets were produced
        h.pack()

    def no_dest():
        h = _hdr(a)
        h.pdu_conf.dest_entity_id = None
        h.pack()

    def mismatched():
        h = _hdr(a)
        h.set_entity_ids(UnsignedByteField(1, 1), UnsignedByteField(1, 2))
        h.pack()

    def oversized():
        _hdr(dict(a, dlen=65536 + a["dlen"] % 1000)).pack()

    def cut():
        PduHeader.unpack(spec_pack(a)[:5])

    def foreign():
        PduHeader.unpack(bytes([0xE0]) + spec_pack(a)[1:])
    core.attempt_all([big_len, no_seq_num, no_dest, mismatched, oversized, cut, foreign])


# ---- derived values the header remembers (case key "hist" of hdr_pack): read, change through the setters, read ----
HDR_VIEW_NAMES = ["header_len", "packet_len", "fields", "pack", "verify", "eq"]


def _hdr_views(final):
    """every derived view of a header as plain values (lengths, the field view with the lengths of header and
    configuration object, the octets and the length read back from them, the length / checksum verification of a PDU
    made for it, == with a header built from the final values)"""
    def v_pack(h):
        raw = pack_stable(h, "PduHeader.pack()")
        return {"raw": hx(raw), "len_from_raw": int(AbstractPduBase.header_len_from_raw(raw))}

    def v_verify(h):
        hdr, n = bytes(h.pack()), int(h.pdu_data_field_len)
        if n > 48:
            return None
        crc = int(h.crc_flag) == 1 and n >= 2
        pdu = with_crc(hdr + bytes(n - 2)) if crc else hdr + bytes(n)
        return int(h.verify_length_and_checksum(pdu + b"\x5a"))

    def v_eq(h):
        ref = _hdr(final)
        return [bool(h == ref), bool(ref == h)]
    return [("header_len", lambda h: int(h.header_len)), ("packet_len", lambda h: int(h.packet_len)), ("fields", _fields),
            ("pack", v_pack), ("verify", v_verify), ("eq", v_eq)]


def _hdr_mutate(h: PduHeader, old, new, path: str):
    """old -> new through the documented ways of changing a header: "hdr" its setters and set_entity_ids, "conf" the
    attributes of the configuration object it exposes as pdu_conf (type, segment-metadata flag and data-field length live
    on the header itself); "all": every setter is called, also for the values that stay"""
    every = path.endswith("+all")
    conf = path.startswith("conf")

    def diff(*keys):
        return every or any(old[k] != new[k] for k in keys)
    if diff("ptype"):
        h.pdu_type = _m(PduType, new["ptype"])
    if diff("segmeta"):
        h.segment_metadata_flag = _m(SegmentMetadataFlag, new["segmeta"])
    if diff("dlen"):
        h.pdu_data_field_len = new["dlen"]
    tgt = h.pdu_conf if conf else h
    for key, attr, en in (("mode", "trans_mode" if conf else "transmission_mode", TransmissionMode),
                          ("large", "file_flag", LargeFileFlag), ("crc", "crc_flag", CrcFlag),
                          ("dir", "direction", Direction), ("segctrl", "seg_ctrl", SegmentationControl)):
        if diff(key):
            setattr(tgt, attr, _m(en, new[key]))
    if diff("seq_w", "seq_v"):
        tgt.transaction_seq_num = UnsignedByteField(new["seq_v"], new["seq_w"])
    if diff("src_w", "src_v", "dst_w", "dst_v"):
        s, d = UnsignedByteField(new["src_v"], new["src_w"]), UnsignedByteField(new["dst_v"], new["dst_w"])
        if conf:
            h.pdu_conf.source_entity_id, h.pdu_conf.dest_entity_id = s, d
        else:
            h.set_entity_ids(source_entity_id=s, dest_entity_id=d)


def _hdr_after_history(a) -> PduHeader:
    """the header of the case's parameters, reached the long way: built (or decoded) with other values, looked at, changed
    to the case's values through the setters; what it shows then is what a header built directly with the case's values
    shows. Own configuration object (setters write to it)."""
    hist = a["hist"]
    old = hist["from"]

    def make():
        return PduHeader.unpack(spec_pack(old) + b"\x00\x01") if hist.get("how") == "unpack" else _hdr(old)
    got = {}
    err = core.read_mutate_read(make, _hdr_views(a), lambda h: _hdr_mutate(h, old, a, hist.get("path", "hdr")),
                                lambda: _hdr(a), "PduHeader", first=hist.get("read"), after=hist.get("after"), out=got)
    if err:
        raise SelfCheckFailure(err)
    return got["obj"]


def _in_domain(a) -> bool:
    return a["src_w"] == a["dst_w"] and a["src_w"] in WIDTHS and a["seq_w"] in WIDTHS and 0 <= a["dlen"] <= 65535


def op_hdr_pack(a):
    if a.get("hist") and _in_domain(a) and _in_domain(a["hist"]["from"]):
        return _packed(_hdr_after_history(a))
    if a.get("poison"):
        _poison(a)
    conf = shared_conf(a)
    f = _packed(_hdr(a, conf))
    conf_untouched(conf, a, "PduHeader(...).pack()")
    return f


def _digest(h: PduHeader) -> Dict[str, Any]:
    """cheap but complete view of a header for the isolation probes: the octets it packs to (every value, width and
    flag is in there) and its lengths"""
    return {"raw": hx(h.pack()), "header_len": int(h.header_len), "packet_len": int(h.packet_len)}


def op_hdr_unpack(a):
    raw = unhx(a["raw"])
    if a.get("mut"):
        _redecode_probe(raw, a["mut"])
    h = PduHeader.unpack(raw)
    f = _fields(h)
    # the headers decoded by the previous calls are looked at again (decoding this input must not have changed them),
    # and this one is looked at again after another header was decoded
    d = ISOLATION.check("C05:PduHeader", h, _digest)
    decoded_alone(h, _digest, f, "PduHeader.unpack", before=d)
    if f["header_len"] > len(raw):
        raise SelfCheckFailure("decoded header is longer than the buffer it was decoded from")
    if bytes(h.pack()) != raw[: f["header_len"]]:
        raise SelfCheckFailure("pack(unpack(b)) != b[:header_len]")
    if int(AbstractPduBase.header_len_from_raw(raw)) != f["header_len"]:
        raise SelfCheckFailure("header_len_from_raw(b) != unpack(b).header_len")
    return f


def op_hdr_len_from_raw(a):
    raw = unhx(a["raw"])
    n = int(AbstractPduBase.header_len_from_raw(raw))
    if int(PduHeader.header_len_from_raw(raw)) != n:
        raise SelfCheckFailure("header_len_from_raw differs between AbstractPduBase and PduHeader")
    return {"len": n}


def op_hdr_check_len(a):
    return {"len": int(PduHeader.check_len_in_bytes(a["n"]))}


def op_hdr_verify(a):
    conf = shared_conf(a)
    h = _hdr(a, conf)
    n = int(h.verify_length_and_checksum(unhx(a["data"])))
    conf_untouched(conf, a, "PduHeader.verify_length_and_checksum")
    return {"len": n}


def op_hdr_unpack_verify(a):
    raw = unhx(a["raw"])
    if a.get("mut"):
        _redecode_probe(raw, a["mut"])
    h = PduHeader.unpack(raw)
    ISOLATION.check("C05:PduHeader", h, _digest)
    n = int(h.verify_length_and_checksum(raw))
    if n != int(h.packet_len):
        raise SelfCheckFailure("verify_length_and_checksum does not return packet_len")
    return {"len": n, "header_len": int(h.header_len), "crc": _code(CrcFlag, h.crc_flag)}


def _refused_unchanged(h: PduHeader, before: Dict[str, Any], what: str):
    if _fields(h) != before:
        raise SelfCheckFailure(f"{what} was refused but changed the header")


def op_hdr_set_ids(a):
    h = _hdr(a)
    before = _fields(h)
    s = UnsignedByteField(a["n_src_v"], a["n_src_w"])
    d = UnsignedByteField(a["n_dst_v"], a["n_dst_w"])
    try:
        h.set_entity_ids(source_entity_id=s, dest_entity_id=d)
    except ValueError:
        _refused_unchanged(h, before, "set_entity_ids")
        raise
    return _packed(h)


def op_hdr_set_len(a):
    h = _hdr(a)
    before = _fields(h)
    try:
        h.pdu_data_field_len = a["n_dlen"]
    except ValueError:
        _refused_unchanged(h, before, "pdu_data_field_len setter")
        raise
    return _packed(h)


def op_hdr_set_flags(a):
    h = _hdr(a)
    q = UnsignedByteField(a["n_seq_v"], a["n_seq_w"])
    h.pdu_type = _m(PduType, a["n_ptype"])
    h.segment_metadata_flag = _m(SegmentMetadataFlag, a["n_segmeta"])
    h.transmission_mode = _m(TransmissionMode, a["n_mode"])
    h.file_flag = _m(LargeFileFlag, a["n_large"])
    h.crc_flag = _m(CrcFlag, a["n_crc"])
    h.direction = _m(Direction, a["n_dir"])
    h.seg_ctrl = _m(SegmentationControl, a["n_segctrl"])
    h.transaction_seq_num = q
    return _packed(h)


OPS = {
    "hdr_bf": op_hdr_bf, "hdr_bf_from_bytes": op_hdr_bf_from_bytes, "hdr_conf_len": op_hdr_conf_len,
    "hdr_new": op_hdr_new, "hdr_pack": op_hdr_pack, "hdr_unpack": op_hdr_unpack,
    "hdr_len_from_raw": op_hdr_len_from_raw, "hdr_check_len": op_hdr_check_len, "hdr_verify": op_hdr_verify,
    "hdr_unpack_verify": op_hdr_unpack_verify, "hdr_set_ids": op_hdr_set_ids, "hdr_set_len": op_hdr_set_len,
    "hdr_set_flags": op_hdr_set_flags,
}


# --------------------------------------------------------------------------------------------
# generators
# --------------------------------------------------------------------------------------------
def spec_pack(a) -> bytes:
    """independent encoder (CCSDS 727.0-B-5 table 5-1), used only to build decoder inputs"""
    o0 = 0x20 | a["ptype"] << 4 | a["dir"] << 3 | a["mode"] << 2 | a["crc"] << 1 | a["large"]
    o3 = a["segctrl"] << 7 | (a["src_w"] - 1) << 4 | a["segmeta"] << 3 | (a["seq_w"] - 1)
    return (bytes([o0, a["dlen"] >> 8, a["dlen"] & 0xFF, o3]) + a["src_v"].to_bytes(a["src_w"], "big")
            + a["seq_v"].to_bytes(a["seq_w"], "big") + a["dst_v"].to_bytes(a["dst_w"], "big"))


def with_crc(body: bytes) -> bytes:
    c = CRC16_CCITT_FUNC(body)
    return body + bytes([c >> 8, c & 0xFF])


def vmax(w: int) -> int:
    return (1 << (8 * w)) - 1


def rand_val(rng: random.Random, w: int) -> int:
    r = rng.random()
    if r < 0.15:
        return rng.choice([0, 1, vmax(w), vmax(w) - 1, 1 << (8 * w - 1), (1 << (8 * w - 1)) - 1])
    if r < 0.3:
        # every octet different: a swapped / reversed octet order is visible
        return int.from_bytes(bytes(rng.sample(range(1, 256), w)), "big")
    return rng.randint(0, vmax(w))


def rand_hdr(rng: random.Random, idw=None, seqw=None, dlen=None) -> Dict[str, Any]:
    idw = idw if idw is not None else rng.choice(WIDTHS)
    seqw = seqw if seqw is not None else rng.choice(WIDTHS)
    if dlen is None:
        dlen = rng.choice([0, 1, 255, 256, 65535, 65534, rng.randint(0, 65535), rng.randint(0, 65535)])
    a = {k: rng.randint(0, 1) for k in FLAGS}
    a.update(dlen=dlen, src_w=idw, src_v=rand_val(rng, idw), dst_w=idw, dst_v=rand_val(rng, idw),
             seq_w=seqw, seq_v=rand_val(rng, seqw))
    return a


def classify(raw: bytes):
    """(expect, errclass) for a decoder input, from the property statement alone"""
    if len(raw) < 4:
        return "invalid", False
    ver_ok = (raw[0] >> 5) == 1
    idw, sqw = ((raw[3] >> 4) & 7) + 1, (raw[3] & 7) + 1
    codes_ok = idw in WIDTHS and sqw in WIDTHS
    long_enough = codes_ok and len(raw) >= 4 + 2 * idw + sqw
    if ver_ok and codes_ok:
        return ("valid", False) if long_enough else ("invalid", False)
    if ver_ok and not codes_ok:
        return "invalid", True       # ValueError is the only candidate (bad code / too short)
    if not ver_ok and long_enough:
        return "invalid", True       # only the version is wrong: UnsupportedCfdpVersion
    return "invalid", False          # several reasons apply: any documented class


def dec_case(raw: bytes, tag: str, **extra) -> Case:
    e, ec = classify(raw)
    return Case({"op": "hdr_unpack", "raw": hx(raw), **extra}, e, errclass=ec, tag=tag)


class C05(Prop):
    id = "C05"
    title = "CFDP fixed PDU header"
    lean_modules = ["SpVerif.Props.C05"]
    exhaustive_note = ("all 2048 (7 flags x 4 ID widths x 4 sequence-number widths) configurations through pack and "
                       "unpack; all 65536 values of (octet 0, octet 3) through the decoder; all 256 values of octet 3 "
                       "through header_len_from_raw; check_len_in_bytes on 0..300; every (width, width) pair "
                       "of source/destination IDs through the constructor and set_entity_ids")
    trusted_base = [
        "arithmetic normal form of the model vs shifts/masks of the code: tied by the exhaustive (octet 0, octet 3) sweep and the exhaustive 2048-configuration sweep",
        "crcmod (CRC16_CCITT_FUNC) is tied to the Lean bit-serial crc16 by the hdr_verify / hdr_unpack_verify ops in this run (and by C02's crc16 op)",
    ]
    assumptions = [
        "negative pdu_data_field_len is outside the model (the setter only bounds the value from above; the statement's domain is 0..65535 and 'above 65535')",
        "flag arguments are members of the library's IntEnums (0/1)",
    ]

    def impl_ops(self):
        return OPS

    def table_sync(self):
        d = []
        if cdefs.CFDP_VERSION_2 != 1:
            d.append(f"CFDP_VERSION_2={cdefs.CFDP_VERSION_2!r} model=1")
        if AbstractPduBase.FIXED_LENGTH != 4:
            d.append(f"FIXED_LENGTH={AbstractPduBase.FIXED_LENGTH!r} model=4")
        if AbstractPduBase.VERSION_BITS != 0x20:
            d.append(f"VERSION_BITS={AbstractPduBase.VERSION_BITS!r} model=0x20")
        for en in (PduType, Direction, TransmissionMode, CrcFlag, LargeFileFlag, SegmentationControl,
                   SegmentMetadataFlag):
            if sorted(int(x) for x in en) != [0, 1]:
                d.append(f"{en.__name__} members {[int(x) for x in en]} model=[0, 1]")
        if sorted(int(x) for x in LenInBytes) != [0, 1, 2, 4, 8]:
            d.append("LenInBytes members")
        if int(CrcFlag.WITH_CRC) != 1 or int(LargeFileFlag.LARGE) != 1:
            d.append("WITH_CRC / LARGE values")
        # every flag member BY NAME against table 5-1 of the standard (a swap leaves the set of values intact)
        d += core.std_table_diffs((PduType, Direction, TransmissionMode, CrcFlag, LargeFileFlag, SegmentationControl,
                                   SegmentMetadataFlag))
        return d

    def nontrivial(self, c: Case) -> bool:
        o = c.op
        if "raw" in o and isinstance(o["raw"], str):
            return o["raw"].strip("0") != ""
        return any(v not in (0, None, False, "") for k, v in o.items() if k != "op")

    def neighbours(self, c: Case, rng: random.Random) -> Iterator[Case]:
        o = c.op
        if isinstance(o.get("raw"), str):
            raw = unhx(o["raw"])
            for k in range(len(raw)):
                yield dec_case(raw[:k], "nb-truncation")
            for pos in range(min(4, len(raw))):
                for bit in range(8):
                    b = bytearray(raw)
                    b[pos] ^= 1 << bit
                    yield dec_case(bytes(b), "nb-bitflip")
        elif all(k in o for k in HDR_KEYS):
            for f in FLAGS:
                a = {k: o[k] for k in HDR_KEYS}
                a[f] ^= 1
                yield Case({"op": "hdr_pack", **a}, "any", tag="nb-flag")
            for idw in WIDTHS:
                for sw in WIDTHS:
                    a = rand_hdr(rng, idw, sw)
                    yield Case({"op": "hdr_pack", **a}, "valid", tag="nb-width")

    def cases(self, rng: random.Random, tier: str) -> Iterator[Case]:
        yield from conf_form_variants(self._cases_members(rng, tier), rng, share=0.03)

    def _cases_members(self, rng: random.Random, tier: str) -> Iterator[Case]:
        thorough = tier == "thorough"
        dl_pool = pool(65535, rng)
        vpools = {w: pool(vmax(w), rng) for w in WIDTHS}

        # --- exhaustive: all 2^7 flag combinations x 16 width combinations ---
        reps = 8 if thorough else 1
        k = 0
        for _ in range(reps):
            for bits in range(128):
                for idw in WIDTHS:
                    for sw in WIDTHS:
                        a = {f: (bits >> i) & 1 for i, f in enumerate(FLAGS)}
                        k += 1
                        bnd = k % 3 != 0
                        a.update(dlen=dl_pool[k % len(dl_pool)] if bnd else rng.randint(0, 65535),
                                 src_w=idw, dst_w=idw, seq_w=sw,
                                 src_v=rng.choice(vpools[idw]) if bnd else rand_val(rng, idw),
                                 dst_v=rng.choice(vpools[idw]) if bnd else rand_val(rng, idw),
                                 seq_v=rng.choice(vpools[sw]) if bnd else rand_val(rng, sw))
                        yield Case({"op": "hdr_pack", **a, "via": k % 2}, "valid", tag="config-all")
                        sfx = rbytes(rng, rng.choice([0, 0, 1, 2, 9, 40]))
                        yield dec_case(spec_pack(a) + sfx, "config-all+suffix")
                        if k % 8 == 0:
                            yield Case({"op": "hdr_new", **a}, "valid", tag="config-all")

        # --- exhaustive: all 65536 values of (octet 0, octet 3) through the decoder ---
        for rep in range(6 if thorough else 2):
            tail = rbytes(rng, 24)
            d1, d2 = rng.getrandbits(8), rng.getrandbits(8)
            for o0 in range(256):
                for o3 in range(256):
                    raw = bytes([o0, d1, d2, o3]) + tail
                    if rep > 0 or (o0 * 256 + o3) % 7 == 0:
                        # sometimes cut exactly at / one short of / one beyond the header end
                        need = 4 + 2 * (((o3 >> 4) & 7) + 1) + (o3 & 7) + 1
                        cut = rng.choice([need, need - 1, need + 1, 28])
                        raw = raw[:cut]
                    yield dec_case(raw, "octet0x3-sweep")
        for o3 in range(256):
            for ln in (4, 5, 28):
                yield Case({"op": "hdr_len_from_raw", "raw": hx(rbytes(rng, 3) + bytes([o3]) + rbytes(rng, ln - 4))},
                           "valid", tag="octet3-sweep")
        for ln in range(4):
            for _ in range(8):
                raw = rbytes(rng, ln)
                yield Case({"op": "hdr_len_from_raw", "raw": hx(raw)}, "invalid", errclass=True, tag="short")
                yield dec_case(raw, "short")
        for n in range(0, 301):
            yield Case({"op": "hdr_check_len", "n": n}, "valid" if n in WIDTHS else "invalid", errclass=True,
                       tag="check-len-sweep")

        # --- boundary pools: values of every width, data-field length ---
        for w in WIDTHS:
            for v in vpools[w]:
                yield Case({"op": "hdr_bf", "w": w, "v": v}, "valid", tag="bf-boundary")
                a = rand_hdr(rng, w, rng.choice(WIDTHS))
                a["src_v"] = v
                yield Case({"op": "hdr_pack", **a}, "valid", tag="id-boundary")
                a = rand_hdr(rng, w, rng.choice(WIDTHS))
                a["dst_v"] = v
                yield Case({"op": "hdr_pack", **a}, "valid", tag="id-boundary")
                a = rand_hdr(rng, rng.choice(WIDTHS), w)
                a["seq_v"] = v
                yield Case({"op": "hdr_pack", **a}, "valid", tag="seq-boundary")
                raw = v.to_bytes(w, "big")
                yield Case({"op": "hdr_bf_from_bytes", "w": w, "raw": hx(raw + rbytes(rng, rng.choice([0, 1, 5])))},
                           "valid", tag="bf-boundary")
                yield Case({"op": "hdr_bf_from_bytes", "w": w, "raw": hx(raw[: w - 1])}, "invalid", errclass=True,
                           tag="bf-short")
            for bad in out_pool(vmax(w), rng):
                yield Case({"op": "hdr_bf", "w": w, "v": bad}, "invalid", errclass=True, tag="bf-out-of-range")
                a = rand_hdr(rng, w, w)
                a[rng.choice(["src_v", "dst_v", "seq_v"])] = bad
                yield Case({"op": "hdr_new", **a}, "invalid", errclass=True, tag="id-out-of-range")
        for w in [3, 5, 6, 7, 9, 16, 255]:
            yield Case({"op": "hdr_bf", "w": w, "v": 0}, "invalid", errclass=True, tag="bf-bad-width")
            yield Case({"op": "hdr_bf_from_bytes", "w": w, "raw": hx(rbytes(rng, 16))}, "invalid", errclass=True,
                       tag="bf-bad-width")
        yield Case({"op": "hdr_bf", "w": 0, "v": 0}, "valid", tag="bf-empty")
        yield Case({"op": "hdr_bf", "w": 0, "v": 1}, "invalid", errclass=True, tag="bf-empty")
        yield Case({"op": "hdr_bf_from_bytes", "w": 0, "raw": ""}, "invalid", errclass=True, tag="bf-empty")
        for d in dl_pool:
            a = rand_hdr(rng, dlen=d)
            yield Case({"op": "hdr_pack", **a}, "valid", tag="dlen-boundary")
            a2 = rand_hdr(rng)
            yield Case({"op": "hdr_set_len", **a2, "n_dlen": d}, "valid", tag="dlen-boundary")
        # --- refusals named by the property ---
        for bad in [65536, 65537, 65535 + 256, 131071, 1 << 24, 1 << 70, 65535 + rng.randint(1, 1 << 20)]:
            for _ in range(3):
                a = rand_hdr(rng, dlen=bad)
                yield Case({"op": "hdr_new", **a}, "invalid", errclass=True, tag="dlen-too-large")
                yield Case({"op": "hdr_pack", **a}, "invalid", errclass=True, tag="dlen-too-large")
                a2 = rand_hdr(rng)
                yield Case({"op": "hdr_set_len", **a2, "n_dlen": bad}, "invalid", errclass=True, tag="dlen-too-large")
        for w1 in [0] + WIDTHS:
            for w2 in [0] + WIDTHS:
                for _ in range(3):
                    a = rand_hdr(rng)
                    a.update(src_w=w1, src_v=rand_val(rng, w1) if w1 else 0, dst_w=w2,
                             dst_v=rand_val(rng, w2) if w2 else 0)
                    yield Case({"op": "hdr_conf_len", **a}, "valid", tag="width-pairs")
                    n = {"n_src_w": w1, "n_src_v": a["src_v"], "n_dst_w": w2, "n_dst_v": a["dst_v"]}
                    base = rand_hdr(rng)
                    if w1 != w2:
                        yield Case({"op": "hdr_new", **a}, "invalid", errclass=True, tag="width-mismatch")
                        yield Case({"op": "hdr_pack", **a}, "invalid", errclass=True, tag="width-mismatch")
                        yield Case({"op": "hdr_set_ids", **base, **n}, "invalid", errclass=True, tag="width-mismatch")
                    elif w1 != 0:
                        yield Case({"op": "hdr_set_ids", **base, **n}, "valid", tag="set-ids")
                    else:
                        # empty byte fields (PduConfig.empty()): constructible, not packable
                        # (packing a header with zero-width fields is outside the statement - widths are 1/2/4/8 -
                        #  and is therefore not judged: the code refuses it only by accident of its arithmetic)
                        yield Case({"op": "hdr_new", **a}, "valid", tag="empty-ids")
        a = rand_hdr(rng)
        a.update(seq_w=0, seq_v=0)
        yield Case({"op": "hdr_new", **a}, "valid", tag="empty-seq")

        # --- setters ---
        for _ in range(10000 if thorough else 400):
            a = rand_hdr(rng)
            b = rand_hdr(rng)
            n = {"n_" + f: b[f] for f in FLAGS}
            n.update(n_seq_w=b["seq_w"], n_seq_v=b["seq_v"])
            yield Case({"op": "hdr_set_flags", **a, **n}, "valid", tag="setters")
            yield Case({"op": "hdr_set_ids", **a, "n_src_w": b["src_w"], "n_src_v": b["src_v"],
                        "n_dst_w": b["dst_w"], "n_dst_v": b["dst_v"]}, "valid", tag="setters")
            yield Case({"op": "hdr_set_len", **a, "n_dlen": b["dlen"]}, "valid", tag="setters")
        # one flag at a time (a lost update in a single setter)
        for f in FLAGS:
            for _ in range(6):
                a = rand_hdr(rng)
                n = {"n_" + g: a[g] for g in FLAGS}
                n.update(n_seq_w=a["seq_w"], n_seq_v=a["seq_v"])
                n["n_" + f] ^= 1
                yield Case({"op": "hdr_set_flags", **a, **n}, "valid", tag="setter-single")

        # --- random full headers, suffixes, truncations, octet substitutions ---
        n = 150000 if thorough else 4000
        for i in range(n):
            a = rand_hdr(rng)
            yield Case({"op": "hdr_pack", **a, "via": i % 2, **({"poison": 1} if i % 8 == 0 else {})}, "valid", tag="random")
            raw = spec_pack(a)
            sfx = rng.choice([b"", b"", rbytes(rng, 1), rbytes(rng, 2), raw, rbytes(rng, 13)])
            yield dec_case(raw + sfx, "random+suffix")
            if i % 5 == 0:
                yield Case({"op": "hdr_len_from_raw", "raw": hx(raw + sfx)}, "valid", tag="random+suffix")
            if i % 20 == 0:
                for cut in range(len(raw)):
                    yield dec_case(raw[:cut], "truncation")
                    if cut >= 4 and cut % 3 == 0:
                        yield Case({"op": "hdr_len_from_raw", "raw": hx(raw[:cut])}, "valid", tag="truncation")
            if i % 100 == 0:
                for pos in (0, 3):
                    for v in range(256):
                        b = bytearray(raw + sfx)
                        b[pos] = v
                        yield dec_case(bytes(b), f"octet{pos}-substitution")
        for _ in range(60000 if thorough else 3000):
            ln = rng.randint(0, 40)
            b = bytearray(rbytes(rng, ln))
            if ln > 0 and rng.random() < 0.8:
                b[0] = 0x20 | (b[0] & 0x1F)
            if ln > 3 and rng.random() < 0.6:
                b[3] = (b[3] & 0x88) | (rng.choice([0, 1, 3, 7]) << 4) | rng.choice([0, 1, 3, 7])
            raw = bytes(b)
            yield dec_case(raw, "random-octets")
            yield Case({"op": "hdr_unpack_verify", "raw": hx(raw)}, "any", tag="random-octets")

        # --- verify_length_and_checksum ---
        for i in range(20000 if thorough else 800):
            a = rand_hdr(rng, dlen=rng.choice([0, 1, 2, 3, 4, 7, 16, rng.randint(0, 60)]))
            hdr = spec_pack(a)
            total = len(hdr) + a["dlen"]
            if a["crc"] == 1 and a["dlen"] >= 2:
                pdu = with_crc(hdr + rbytes(rng, a["dlen"] - 2))
            else:
                pdu = hdr + rbytes(rng, a["dlen"])
            sfx = rng.choice([b"", b"", rbytes(rng, 1), rbytes(rng, 2), rbytes(rng, 9)])
            good = a["crc"] == 0 or a["dlen"] >= 2
            yield Case({"op": "hdr_verify", **a, "data": hx(pdu + sfx)}, "valid" if good else "any", tag="verify")
            yield Case({"op": "hdr_unpack_verify", "raw": hx(pdu + sfx)}, "valid" if good else "any", tag="verify")
            # too short: refused whatever the flag
            if total > 0:
                cut = rng.choice([total - 1, total - 2, len(hdr), 0, rng.randint(0, total - 1)])
                cut = min(max(cut, 0), total - 1)
                yield Case({"op": "hdr_verify", **a, "data": hx(pdu[:cut])}, "invalid", errclass=True,
                           tag="verify-short")
            if a["crc"] == 1 and a["dlen"] >= 2:
                # one flipped bit anywhere in the PDU: checksum error
                b = bytearray(pdu)
                b[rng.randrange(len(b))] ^= 1 << rng.randint(0, 7)
                yield Case({"op": "hdr_verify", **a, "data": hx(bytes(b) + sfx)}, "invalid", errclass=True,
                           tag="verify-bitflip")
                # a trailer that is right for the buffer but not for the declared PDU
                if sfx:
                    wrong = with_crc(pdu[:-2] + sfx)
                    yield Case({"op": "hdr_verify", **a, "data": hx(wrong)}, "any", errclass=True,
                               tag="verify-crc-over-buffer")
            elif a["crc"] == 0:
                b = bytearray(pdu)
                if len(b) > len(hdr):
                    b[rng.randrange(len(hdr), len(b))] ^= 0xFF
                yield Case({"op": "hdr_verify", **a, "data": hx(bytes(b))}, "valid", tag="verify-no-crc")
        for d in [65535, 65534, 40000]:
            a = rand_hdr(rng, dlen=d)
            a["crc"] = 1
            pdu = with_crc(spec_pack(a) + rbytes(rng, d - 2))
            yield Case({"op": "hdr_verify", **a, "data": hx(pdu)}, "valid", tag="verify-large")
            yield Case({"op": "hdr_verify", **a, "data": hx(pdu[:-1])}, "invalid", errclass=True, tag="verify-large")

        # --- the application modifies a header it decoded through the public setters (each alone, all, random subsets:
        #     key "mut", see mutate_cfdp), then decodes the same octets again; also in front of the length / checksum
        #     verification of intact and of corrupted PDUs ---
        singles = [1 << k for k in range(10)] + [MUT_ALL]
        for i in range(12000 if thorough else 1200):
            a = rand_hdr(rng, dlen=rng.choice([2, 3, 4, 7, 16, rng.randint(2, 60)]))
            m = singles[i % len(singles)] if i % 2 == 0 else rng.randint(1, MUT_ALL)
            hdr = spec_pack(a)
            yield dec_case(hdr + rng.choice([b"", b"", rbytes(rng, 3)]), "setters-then-decode", mut=m)
            if i % 3 == 0:
                body = hdr + rbytes(rng, a["dlen"] - 2)
                pdu = with_crc(body) if a["crc"] == 1 else body + rbytes(rng, 2)
                yield Case({"op": "hdr_unpack_verify", "raw": hx(pdu), "mut": m | 1}, "valid", tag="setters-then-verify")
                if a["crc"] == 1:
                    b = bytearray(pdu)
                    b[rng.randrange(len(hdr), len(b))] ^= 1 << rng.randint(0, 7)
                    yield Case({"op": "hdr_unpack_verify", "raw": hx(bytes(b)), "mut": m | 1}, "invalid", errclass=True,
                               tag="setters-then-verify")

        # --- a header that reached the case's values the long way (key "hist"): built / decoded with other values, some or
        #     all of its derived views read (header_len, packet_len, the field view, pack, the length verification), then
        #     changed through the documented setters / set_entity_ids / the attributes of its pdu_conf, then every view read
        #     again: all of that is what a header built directly with the final values shows, and what the model packs ---
        reads = [None, ["header_len"], ["packet_len"], ["fields"], ["verify"], ["pack"], []]
        groups = [["seq_w", "seq_v"], ["src_w", "src_v", "dst_w", "dst_v"], ["dlen"], ["ptype", "segmeta"],
                  ["mode", "large", "crc", "dir", "segctrl"]]
        k = 0
        for rep in range(10 if thorough else 1):
            for how in ("new", "unpack"):
                for path in ("hdr", "conf", "hdr+all", "conf+all"):
                    for rd in reads:
                        for g in range(len(groups) + 2):
                            k += 1
                            a = rand_hdr(rng, dlen=rng.choice([0, 1, 2, 5, 40, 300, 65535, rng.randint(0, 65535)]))
                            old = rand_hdr(rng)
                            if g < len(groups):
                                # one group of values changes (for the widths: always to another width), the rest stays
                                keep = {x for x in HDR_KEYS if x not in groups[g]}
                                if g == 0:
                                    old["seq_w"] = rng.choice([w for w in WIDTHS if w != a["seq_w"]])
                                    old["seq_v"] = rand_val(rng, old["seq_w"])
                                elif g == 1:
                                    w = rng.choice([w for w in WIDTHS if w != a["src_w"]])
                                    old.update(src_w=w, dst_w=w, src_v=rand_val(rng, w), dst_v=rand_val(rng, w))
                                for x in keep:
                                    old[x] = a[x]
                            elif g == len(groups):
                                for x in rng.sample(HDR_KEYS, 5):
                                    if x not in ("src_w", "dst_w", "src_v", "dst_v", "seq_w", "seq_v"):
                                        old[x] = a[x]
                            after = list(HDR_VIEW_NAMES)
                            rng.shuffle(after)
                            yield Case({"op": "hdr_pack", **a, "hist": {"from": old, "how": how, "path": path, "read": rd,
                                                                        "after": after}}, "valid", tag="read-set-read")

        # --- state leaking between calls / objects (the ops keep the objects decoded by the previous calls and
        #     hand the same PduConfig instance to cases with equal configuration parameters) ---
        for i in range(4000 if thorough else 150):
            a = rand_hdr(rng)
            b = contrast_conf(a)
            b.update(ptype=1 - a["ptype"], segmeta=1 - a["segmeta"], dlen=rng.choice(dl_pool))
            ra, rb = spec_pack(a), spec_pack(b)
            # decode A, then B (every configuration field differs), then A again, B with a suffix
            yield dec_case(ra + rng.choice([b"", rbytes(rng, 3)]), "isolation-pair")
            yield dec_case(rb, "isolation-pair")
            yield dec_case(ra, "isolation-pair")
            yield Case({"op": "hdr_unpack_verify", "raw": hx(rb + rbytes(rng, 2))}, "any", tag="isolation-pair")
            # one configuration, several headers built from it back to back, then the contrasting one
            for j in range(3):
                h = dict(a, ptype=(a["ptype"] + j) % 2, segmeta=(a["segmeta"] + j // 2) % 2, dlen=rng.choice(dl_pool))
                yield Case({"op": "hdr_pack", **h}, "valid", tag="shared-config")
            yield Case({"op": "hdr_new", **a}, "valid", tag="shared-config")
            yield Case({"op": "hdr_pack", **b}, "valid", tag="shared-config")
            if i % 4 == 0:
                yield Case({"op": "hdr_conf_len", **a}, "valid", tag="shared-config")
                yield Case({"op": "hdr_pack", **a}, "valid", tag="shared-config")


PROP = C05()
