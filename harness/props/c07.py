"""C07 — CFDP File Data PDU carries offset, segment metadata and file data exactly"""
import random
from typing import Any, Dict, Iterator, List, Optional

import core

from core import Case, Prop, SelfCheckFailure, exc_category, DOCUMENTED, pack_stable, ISOLATION
from gen import hx, unhx, pool, rbytes

import spacepackets.cfdp.pdu.file_data as fdmod
from spacepackets.cfdp.pdu.file_data import (
    FileDataPdu, FileDataParams, SegmentMetadata, RecordContinuationState,
    get_max_file_seg_len_for_max_packet_len_and_pdu_cfg,
)
from spacepackets.cfdp.defs import PduType, Direction, CrcFlag, LargeFileFlag, SegmentMetadataFlag
from spacepackets.crc import CRC16_CCITT_FUNC
from props.c05 import _conf, _fields as hdr_fields, spec_pack as hdr_spec_pack, with_crc, rand_val, vmax, WIDTHS
from props.c05 import shared_conf, conf_untouched, contrast_conf, decoded_alone
from props.c05 import conf_form_variants

CONF_KEYS = ["src_w", "src_v", "dst_w", "dst_v", "seq_w", "seq_v", "mode", "large", "crc", "dir", "segctrl"]
CONF_FLAGS = ["mode", "large", "crc", "dir", "segctrl"]
PARAM_KEYS = ["data", "offset", "meta", "state"]
_code = core.std_code    # int(code read back), after `code == Enum.NAME  <=>  it is the standard's code for NAME`


# --------------------------------------------------------------------------------------------
# implementation ops (public API only)
# --------------------------------------------------------------------------------------------
def _meta(a, mk="meta", sk="state") -> Optional[SegmentMetadata]:
    if a.get(mk) is None:
        return None
    st = a[sk]
    if st in (0, 1, 2, 3):
        # the member an application writes: the one with the STANDARD NAME of the code (core.std_member)
        st = core.std_member(RecordContinuationState, st, strict=True)
    return SegmentMetadata(record_cont_state=st, metadata=unhx(a[mk]))


def _params(a) -> FileDataParams:
    data = unhx(a["data"])
    if a.get("via", 0) == 1:
        data = bytearray(data)
    return FileDataParams(file_data=data, offset=a["offset"], segment_metadata=_meta(a))


def _pdu(a, conf=None) -> FileDataPdu:
    return FileDataPdu(pdu_conf=_conf(a) if conf is None else conf, params=_params(a))


def _built(a, what: str, use):
    """`use(FileDataPdu(conf, params))` with the PduConfig instance a program would hold for these configuration
    parameters (shared between cases, see props/c05.py); constructing / packing leaves it as it was (C11 clause)"""
    conf = shared_conf(a)
    out = use(_pdu(a, conf))
    conf_untouched(conf, a, what)
    return out


def _pdu_fields(p: FileDataPdu) -> Dict[str, Any]:
    h = p.pdu_header
    f = hdr_fields(h)
    sm = p.segment_metadata
    f.update(offset=int(p.offset), data=hx(p.file_data),
             meta=None if sm is None else hx(sm.metadata),
             state=None if sm is None else _code(RecordContinuationState, sm.record_cont_state))
    # the object's own views agree with its header and params
    if int(p.packet_len) != f["packet_len"] or int(p.pdu_data_field_len) != f["dlen"] or int(p.header_len) != f["header_len"]:
        raise SelfCheckFailure("packet_len / pdu_data_field_len / header_len of the PDU differ from its header's")
    if bool(p.has_segment_metadata) != (sm is not None) or f["segmeta"] != (0 if sm is None else 1):
        raise SelfCheckFailure("segment-metadata flag and presence of segment metadata disagree")
    rcs = p.record_cont_state
    if (rcs is None) != (sm is None) or (rcs is not None and _code(RecordContinuationState, rcs) != f["state"]):
        raise SelfCheckFailure("record_cont_state view disagrees with the segment metadata")
    if int(p.file_flag) != f["large"] or int(p.crc_flag) != f["crc"] or int(p.pdu_type) != f["ptype"] \
            or int(p.direction) != f["dir"] or int(p.transmission_mode) != f["mode"]:
        raise SelfCheckFailure("flag views of the PDU differ from its header's")
    return f


def _check_octets(f: Dict[str, Any], raw: bytes, what: str):
    """clauses visible on the octets alone: total length, length field, CRC trailer"""
    if len(raw) != f["packet_len"]:
        raise SelfCheckFailure(f"{what}: len(pack())={len(raw)} != packet_len={f['packet_len']}")
    if int.from_bytes(raw[1:3], "big") != len(raw) - f["header_len"]:
        raise SelfCheckFailure(f"{what}: data-field length in the octets does not cover the rest of the PDU")
    if f["crc"] == 1 and CRC16_CCITT_FUNC(raw) != 0:
        raise SelfCheckFailure(f"{what}: CRC flag set but the CRC-16 over the packed PDU is not zero")


def _packed(p: FileDataPdu) -> Dict[str, Any]:
    f = _pdu_fields(p)
    raw = pack_stable(p, "FileDataPdu.pack()")
    _check_octets(f, raw, "pack")
    u = FileDataPdu.unpack(raw)
    fu = _pdu_fields(u)
    if fu != f:
        diff = sorted(k for k in f if f[k] != fu.get(k))
        raise SelfCheckFailure(f"unpack(pack(x)) has different values for {diff}")
    if not (u == p) or not (p == u):
        raise SelfCheckFailure("unpack(pack(x)) != x under ==")
    if bytes(u.pack()) != raw:
        raise SelfCheckFailure("re-packing the decoded PDU does not reproduce the octets")
    f["raw"] = hx(raw)
    return f


def op_fd_new(a):
    return _built(a, "FileDataPdu(...)", _pdu_fields)


def op_fd_pack(a):
    return _built(a, "FileDataPdu(...).pack()", _packed)


def _digest(p: FileDataPdu):
    """cheap but complete view for the isolation probes: the octets the PDU re-packs to and its lengths"""
    try:
        raw = hx(p.pack())
    except ValueError:
        return _pdu_fields(p)
    return {"raw": raw, "packet_len": int(p.packet_len), "header_len": int(p.header_len)}


def op_fd_unpack(a):
    raw, sfx = unhx(a["raw"]), unhx(a["suffix"])
    buf = raw + sfx
    if a.get("via", 0) == 1:
        buf = bytearray(buf)
    accepted = bytes(buf)
    try:
        p = FileDataPdu.unpack(buf)
    except Exception as e:  # noqa
        if sfx and exc_category(e) in DOCUMENTED:
            # refusing a buffer with trailing octets is one of the two allowed behaviours (C09)
            p = FileDataPdu.unpack(raw)
            accepted = raw
        else:
            raise
    f = _pdu_fields(p)
    # the PDUs decoded by the previous calls are looked at again (decoding this input must not have changed them), and
    # this one is looked at again after another header was decoded
    d = ISOLATION.check("C07:FileDataPdu", p, _digest)
    decoded_alone(p, _digest, f, "FileDataPdu.unpack", before=d)
    if f["packet_len"] > len(buf):
        raise SelfCheckFailure("decoded PDU is longer than the buffer it was decoded from")
    rp = bytes(p.pack())
    if rp != bytes(buf[: f["packet_len"]]):
        raise SelfCheckFailure("pack(unpack(b)) != b[:packet_len]")
    # decoded out of a receive buffer (a bytearray) that the receiver reuses afterwards: the file data and the segment
    # metadata of the decoded PDU are still the ones that were on the wire (a buffer with trailing octets that is
    # refused is outside the probe: the PDU alone is looked at in that case)
    core.check_detached(FileDataPdu.unpack, accepted, _digest, "FileDataPdu.unpack", expect=_digest(p),
                        memview=core.accepts_memoryview(FileDataPdu.unpack))
    f["raw"] = hx(rp)
    return f


def op_fd_pack_offset(a):
    p = _pdu(a)
    try:
        raw = bytes(p.pack())
    except Exception:  # noqa  (struct.error / OverflowError / ValueError: all of them are refusals)
        return {"refused": True, "raw": None}
    return {"refused": False, "raw": hx(raw)}


def _max_seg_check(conf_args, meta, max_len: int, n: int):
    """a segment of the reported size packs to exactly max_len octets (when it can be built at all)"""
    if n > 65535 or (meta is not None and len(meta.metadata) > 63):
        return
    try:
        p = FileDataPdu(_conf(conf_args), FileDataParams(bytes(n), 0, meta))
        raw = p.pack()
    except ValueError:
        return
    if len(raw) != max_len:
        raise SelfCheckFailure(f"a segment of the reported maximum size {n} packs to {len(raw)} octets, not {max_len}")


def op_fd_max_seg(a):
    meta = _meta(a)
    conf = shared_conf(a)
    n = int(get_max_file_seg_len_for_max_packet_len_and_pdu_cfg(conf, a["max_len"], meta))
    conf_untouched(conf, a, "get_max_file_seg_len_for_max_packet_len_and_pdu_cfg")
    if a["src_w"] == a["dst_w"] and a["src_w"] != 0 and a["seq_w"] != 0:
        _max_seg_check(a, meta, a["max_len"], n)
    return {"len": n}


def op_fd_max_seg_obj(a):
    return _built(a, "FileDataPdu.get_max_file_seg_len_for_max_packet_len",
                  lambda p: {"len": int(p.get_max_file_seg_len_for_max_packet_len(a["max_len"]))})


def _apply(p: FileDataPdu, s):
    if s["set"] == "data":
        p.file_data = unhx(s["data"])
    else:
        p.segment_metadata = _meta(s)


def _state(p: FileDataPdu, err=None) -> Dict[str, Any]:
    try:
        raw = pack_stable(p, "FileDataPdu.pack()")
        perr = None
    except SelfCheckFailure:
        raise
    except Exception as e:  # noqa
        perr = exc_category(e)
        if perr not in DOCUMENTED:
            raise
        raw = None
    st = {"err": err, "packet_len": int(p.packet_len), "dlen": int(p.pdu_data_field_len),
          "segmeta": _code(SegmentMetadataFlag, p.pdu_header.segment_metadata_flag), "raw": None if raw is None else hx(raw),
          "pack_err": perr}
    if raw is not None:
        f = {"packet_len": st["packet_len"], "header_len": int(p.header_len), "crc": int(p.crc_flag)}
        _check_octets(f, raw, "after setter")
    return st


def _fresh_check(p: FileDataPdu, conf_of):
    """an object built from scratch with the final values packs to the same octets"""
    try:
        raw = bytes(p.pack())
    except ValueError:
        return
    if int(p.direction) != int(Direction.TOWARDS_RECEIVER) or int(p.pdu_type) != int(PduType.FILE_DATA):
        return   # a decoded PDU keeps the bits of its octets; the constructor forces both
    sm = p.segment_metadata
    q = FileDataPdu(conf_of(), FileDataParams(bytes(p.file_data), int(p.offset),
                                              None if sm is None else SegmentMetadata(sm.record_cont_state, bytes(sm.metadata))))
    if bytes(q.pack()) != raw:
        raise SelfCheckFailure("after the setter sequence pack() differs from a fresh object with the same values")
    if int(q.packet_len) != int(p.packet_len):
        raise SelfCheckFailure("after the setter sequence packet_len differs from a fresh object with the same values")


def _run_seq(p: FileDataPdu, steps, conf_of):
    """after every setter call, accepted or refused, the observable state is reported; a refused call does not
    end the sequence (the model proves it leaves the object unchanged, C07_step_refused)"""
    out = {"initial": _state(p), "steps": [], "final": None}
    for s in steps:
        try:
            _apply(p, s)
        except Exception as e:  # noqa
            cat = exc_category(e)
            if cat not in DOCUMENTED:
                raise
            out["steps"].append(_state(p, cat))
            continue
        out["steps"].append(_state(p))
    _fresh_check(p, conf_of)
    out["final"] = _pdu_fields(p)
    return out


def op_fd_seq(a):
    return _run_seq(_pdu(a), a["steps"], lambda: _conf(a))


def op_fd_useq(a):
    raw, sfx = unhx(a["raw"]), unhx(a["suffix"])
    try:
        p = FileDataPdu.unpack(raw + sfx)
    except Exception as e:  # noqa
        if sfx and exc_category(e) in DOCUMENTED:
            p = FileDataPdu.unpack(raw)
        else:
            raise
    return _run_seq(p, a["steps"], lambda: p.pdu_header.pdu_conf)


def op_fd_eq(a):
    conf = shared_conf(a)        # both PDUs from the same PduConfig instance, as in a real program
    p = _pdu(a, conf)
    q = FileDataPdu(conf, FileDataParams(unhx(a["data2"]), a["offset2"], _meta(a, "meta2", "state2")))
    r1, r2 = bool(p == q), bool(q == p)
    if r1 != r2:
        raise SelfCheckFailure("== is not symmetric")
    conf_untouched(conf, a, "FileDataPdu(...) / ==")
    return {"eq": r1}


OPS = {
    "fd_new": op_fd_new, "fd_pack": op_fd_pack, "fd_unpack": op_fd_unpack, "fd_pack_offset": op_fd_pack_offset,
    "fd_max_seg": op_fd_max_seg, "fd_max_seg_obj": op_fd_max_seg_obj, "fd_seq": op_fd_seq, "fd_useq": op_fd_useq,
    "fd_eq": op_fd_eq,
}


# --------------------------------------------------------------------------------------------
# independent encoder / classifier (built from the statement, used to make decoder inputs)
# --------------------------------------------------------------------------------------------
def off_w(a) -> int:
    return 8 if a["large"] == 1 else 4


def meta_len(a) -> int:
    return 0 if a.get("meta") is None else 1 + len(a["meta"]) // 2


def dlen_of(a) -> int:
    return meta_len(a) + off_w(a) + len(a["data"]) // 2 + 2 * a["crc"]


def spec_fd(a, ptype: int = 1, dlen: Optional[int] = None) -> bytes:
    """header ‖ [state<<6|len ‖ metadata] ‖ offset ‖ data ‖ [CRC-16] with the length covering all of it"""
    h = dict(a)
    h.update(ptype=ptype, segmeta=0 if a.get("meta") is None else 1, dlen=dlen_of(a) if dlen is None else dlen)
    out = hdr_spec_pack(h)
    if a.get("meta") is not None:
        md = unhx(a["meta"])
        out += bytes([(a["state"] << 6 | len(md)) & 0xFF]) + md
    out += a["offset"].to_bytes(off_w(a), "big") + unhx(a["data"])
    return with_crc(out) if a["crc"] == 1 else out


def ref_accepts(raw: bytes) -> bool:
    """does the statement's layout describe `raw` (a complete File Data PDU, possibly followed by more octets)?"""
    if len(raw) < 4 or raw[0] >> 5 != 1:
        return False
    idw, sqw = ((raw[3] >> 4) & 7) + 1, (raw[3] & 7) + 1
    if idw not in WIDTHS or sqw not in WIDTHS:
        return False
    hl = 4 + 2 * idw + sqw
    if len(raw) < hl:
        return False
    crc, large, segmeta = (raw[0] >> 1) & 1, raw[0] & 1, (raw[3] >> 3) & 1
    total = hl + (raw[1] << 8 | raw[2])
    if len(raw) < total:
        return False
    if crc and CRC16_CCITT_FUNC(raw[:total]) != 0:
        return False
    end = total - 2 * crc
    body = raw[hl:end] if end >= hl else b""
    w = 8 if large else 4
    if segmeta:
        if not body:
            return False
        return len(body) >= 1 + (body[0] & 0x3F) + w
    return len(body) >= w


def declared_len(raw: bytes) -> Optional[int]:
    """total length the fixed header declares, when the buffer holds a well-formed header"""
    if len(raw) < 4 or raw[0] >> 5 != 1:
        return None
    idw, sqw = ((raw[3] >> 4) & 7) + 1, (raw[3] & 7) + 1
    if idw not in WIDTHS or sqw not in WIDTHS or len(raw) < 4 + 2 * idw + sqw:
        return None
    return 4 + 2 * idw + sqw + (raw[1] << 8 | raw[2])


def dec_case(raw: bytes, tag: str, sfx: bytes = b"", via: int = 0, force: Optional[str] = None) -> Case:
    # octets after the declared PDU always travel as "suffix": refusing them is an allowed behaviour
    n = declared_len(raw)
    if n is not None and len(raw) > n:
        raw, sfx = raw[:n], raw[n:] + sfx
    e = force if force is not None else ("valid" if ref_accepts(raw) else "invalid")
    op = {"op": "fd_unpack", "raw": hx(raw), "suffix": hx(sfx)}
    if via:
        op["via"] = via
    return Case(op, e, tag=tag)


# --------------------------------------------------------------------------------------------
# generators
# --------------------------------------------------------------------------------------------
META_LENS = [0, 1, 2, 31, 32, 62, 63]
DATA_LENS = [0, 0, 1, 2, 3, 4, 7, 8, 9, 16, 63, 64, 255, 256]


def rand_conf(rng: random.Random, idw=None, seqw=None, **fixed) -> Dict[str, Any]:
    idw = idw if idw is not None else rng.choice(WIDTHS)
    seqw = seqw if seqw is not None else rng.choice(WIDTHS)
    c = {k: rng.randint(0, 1) for k in CONF_FLAGS}
    c.update(src_w=idw, src_v=rand_val(rng, idw), dst_w=idw, dst_v=rand_val(rng, idw), seq_w=seqw,
             seq_v=rand_val(rng, seqw))
    c.update(fixed)
    return c


def rand_offset(rng: random.Random, large: int) -> int:
    w = 8 if large else 4
    r = rng.random()
    if r < 0.2:
        return rng.choice([0, 1, vmax(w), vmax(w) - 1, 1 << (8 * w - 1), (1 << (8 * w - 1)) - 1, 255, 256, 65535, 65536,
                           (1 << 32) - 1 if large else 0x01020304, 1 << 32 if large else 0x80000000])
    if r < 0.5:
        return int.from_bytes(bytes(rng.sample(range(1, 256), w)), "big")   # every octet different
    return rng.randint(0, vmax(w))


def rand_meta(rng: random.Random, ln: Optional[int] = None, p_none: float = 0.4):
    if ln is None:
        if rng.random() < p_none:
            return {"meta": None, "state": None}
        ln = rng.choice(META_LENS + [rng.randint(0, 63)])
    return {"meta": hx(rbytes(rng, ln)), "state": rng.randint(0, 3)}


def rand_args(rng: random.Random, conf=None, dl: Optional[int] = None, ml: Optional[int] = None,
              p_none: float = 0.4) -> Dict[str, Any]:
    a = dict(conf) if conf is not None else rand_conf(rng)
    if dl is None:
        dl = rng.choice(DATA_LENS + [rng.randint(0, 40)])
    a.update(data=hx(rbytes(rng, dl)), offset=rand_offset(rng, a["large"]))
    a.update(rand_meta(rng, ml, p_none))
    return a


def rand_steps(rng: random.Random, n: int, refuse: bool, p_refuse: float = 0.08) -> List[Dict[str, Any]]:
    steps = []
    for _ in range(n):
        r = rng.random()
        if r < 0.5:
            dl = rng.choice(DATA_LENS + [rng.randint(0, 40)])
            if refuse and rng.random() < p_refuse:
                dl = rng.choice([65536, 65530, 70000])
            steps.append({"set": "data", "data": hx(rbytes(rng, dl))})
        else:
            m = rand_meta(rng, None, 0.35)
            if refuse and rng.random() < 0.08:
                m = {"meta": hx(rbytes(rng, rng.choice([64, 65, 100, 255]))), "state": rng.randint(0, 3)}
            steps.append({"set": "meta", **m})
    return steps


class C07(Prop):
    id = "C07"
    title = "CFDP File Data PDU"
    lean_modules = ["SpVerif.Props.C07"]
    exhaustive_note = ("all 512 (5 configuration flags x 4 ID widths x 4 sequence-number widths) header configurations "
                       "x segment metadata absent / present through pack and unpack; all metadata lengths 0..63 x all 4 "
                       "record-continuation states x CRC x large-file; all 256 values of the (state, length) octet "
                       "through the decoder at every interesting buffer length; all 256 values of octet 0 and octet 3; "
                       "every truncation of sampled PDUs; every declared length around the true one")
    trusted_base = [
        "arithmetic normal form of the model (state*64+len, b/64%4, b%64) vs shifts/masks of the code: tied by the exhaustive sweep of the (state, length) octet and of all (state, length) pairs",
        "crcmod (CRC16_CCITT_FUNC) is tied to the Lean bit-serial crc16 by every CRC-flagged PDU packed / decoded in this run (and by C02's crc16 op)",
        "header model: C05 (its own exhaustive sweeps)",
    ]
    assumptions = [
        "offsets are non-negative integers (negative ones are refused by struct.pack like too large ones; the statement's domain is the 32/64-bit range)",
        "record-continuation states are non-negative integers; members of RecordContinuationState (0..3) in the domain of the round trip",
    ]

    def impl_ops(self):
        return OPS

    def table_sync(self):
        d = []
        if sorted(int(x) for x in RecordContinuationState) != [0, 1, 2, 3]:
            d.append(f"RecordContinuationState members {[int(x) for x in RecordContinuationState]} model=[0,1,2,3]")
        if int(PduType.FILE_DATA) != 1:
            d.append("PduType.FILE_DATA model=1")
        if int(Direction.TOWARDS_RECEIVER) != 0:
            d.append("Direction.TOWARDS_RECEIVER model=0")
        if int(CrcFlag.WITH_CRC) != 1 or int(LargeFileFlag.LARGE) != 1:
            d.append("WITH_CRC / LARGE values")
        if int(SegmentMetadataFlag.PRESENT) != 1 or int(SegmentMetadataFlag.NOT_PRESENT) != 0:
            d.append("SegmentMetadataFlag values")
        # every member the ops use BY NAME against the tables of the standard (a swap leaves the set of values intact)
        d += core.std_table_diffs((RecordContinuationState, PduType, Direction, CrcFlag, LargeFileFlag, SegmentMetadataFlag))
        return d

    def nontrivial(self, c: Case) -> bool:
        o = c.op
        if isinstance(o.get("raw"), str):
            return o["raw"].strip("0") != ""
        return any(v not in (0, None, False, "", []) for k, v in o.items() if k != "op")

    def neighbours(self, c: Case, rng: random.Random) -> Iterator[Case]:
        o = c.op
        if o.get("op") == "fd_unpack":
            raw = unhx(o["raw"])
            for k in range(len(raw)):
                yield dec_case(raw[:k], "nb-truncation")
            for sfx in (b"\x00", rbytes(rng, 2), rbytes(rng, 9)):
                yield dec_case(raw, "nb-suffix", sfx)
            for pos in range(min(len(raw), 12)):
                for bit in range(8):
                    b = bytearray(raw)
                    b[pos] ^= 1 << bit
                    yield dec_case(bytes(b), "nb-bitflip")
        elif all(k in o for k in CONF_KEYS + PARAM_KEYS):
            base = {k: o[k] for k in CONF_KEYS + PARAM_KEYS}
            for f in CONF_FLAGS:
                a = dict(base)
                a[f] ^= 1
                if f == "large" and a["offset"] > vmax(4):
                    a["offset"] &= vmax(4)
                yield Case({"op": "fd_pack", **a}, "any", tag="nb-flag")
                if a.get("meta") is None or len(a["meta"]) <= 126:
                    try:
                        yield dec_case(spec_fd(a), "nb-flag", force="any")
                    except (OverflowError, ValueError):
                        pass
            for idw in WIDTHS:
                for sw in WIDTHS:
                    a = rand_args(rng, rand_conf(rng, idw, sw))
                    yield Case({"op": "fd_pack", **a}, "valid", tag="nb-width")
                    yield dec_case(spec_fd(a), "nb-width", rbytes(rng, 3))

    def cases(self, rng: random.Random, tier: str) -> Iterator[Case]:
        """the generated stream, then a share of its valid configuration-carrying cases once more with the five PduConfig
        flags as plain ints / bools (props.c05.conf_form_variants; case key forms.conf)"""
        yield from conf_form_variants(self._cases_members(rng, tier), rng, share=0.08)

    def _cases_members(self, rng: random.Random, tier: str) -> Iterator[Case]:
        thorough = tier == "thorough"

        # --- exhaustive: 2^5 flag combinations x 16 width combinations x metadata absent/present ---
        k = 0
        for _ in range(6 if thorough else 1):
            for bits in range(32):
                for idw in WIDTHS:
                    for sw in WIDTHS:
                        for with_meta in (0, 1):
                            k += 1
                            c = rand_conf(rng, idw, sw, **{f: (bits >> i) & 1 for i, f in enumerate(CONF_FLAGS)})
                            a = rand_args(rng, c, dl=DATA_LENS[k % len(DATA_LENS)],
                                          ml=(META_LENS + [rng.randint(0, 63)])[k % 8] if with_meta else None, p_none=1.0)
                            if not with_meta:
                                a.update(meta=None, state=None)
                            yield Case({"op": "fd_pack", **a, "via": k % 2}, "valid", tag="config-all")
                            sfx = rng.choice([b"", b"", rbytes(rng, 1), rbytes(rng, 2), rbytes(rng, 8), rbytes(rng, 17)])
                            yield dec_case(spec_fd(a), "config-all+suffix", sfx, via=(k // 2) % 2)
                            if k % 16 == 0:
                                yield Case({"op": "fd_new", **a}, "valid", tag="config-all")

        # --- every metadata length 0..63 x every record-continuation state x CRC x large-file ---
        for ml in range(64):
            for st in range(4):
                for crc in (0, 1):
                    for large in (0, 1):
                        a = rand_args(rng, rand_conf(rng, crc=crc, large=large), dl=rng.choice([0, 0, 1, 5, 20]), ml=ml)
                        a["state"] = st
                        yield Case({"op": "fd_pack", **a}, "valid", tag="meta-all")
                        yield dec_case(spec_fd(a), "meta-all", rng.choice([b"", rbytes(rng, 2)]))
        # longer than 63: constructible (and reported lengths count it) but pack refuses with ValueError
        for ml in [64, 65, 66, 100, 127, 128, 255, 256, 1000]:
            for _ in range(4):
                a = rand_args(rng, dl=rng.choice([0, 1, 9]), ml=ml)
                yield Case({"op": "fd_pack", **a}, "invalid", errclass=True, tag="meta-too-long")
                yield Case({"op": "fd_new", **a}, "valid", tag="meta-too-long")
        # record-continuation states outside the enum cannot be encoded in two bits
        for st in [4, 5, 7, 255]:
            a = rand_args(rng, ml=rng.choice([0, 3, 63]))
            a["state"] = st
            yield Case({"op": "fd_pack", **a}, "any", tag="state-not-member")

        # --- exhaustive: the (state, length) octet through the decoder, buffer ending at every interesting place ---
        for rep in range(8 if thorough else 2):
            c = rand_conf(rng, crc=rep % 2, large=(rep // 2) % 2)
            w = 8 if c["large"] else 4
            for b in range(256):
                ml = b & 0x3F
                for body_len in {0, ml - 1, ml, ml + 1, ml + w - 1, ml + w, ml + w + 1, ml + w + rng.randint(2, 30)}:
                    if body_len < 0:
                        continue
                    h = dict(c)
                    h.update(ptype=1, segmeta=1, dlen=1 + body_len + 2 * c["crc"])
                    raw = hdr_spec_pack(h) + bytes([b]) + rbytes(rng, body_len)
                    if c["crc"]:
                        raw = with_crc(raw)
                    yield dec_case(raw, "meta-octet-sweep", rng.choice([b"", b"", rbytes(rng, 3)]))

        # --- offsets: boundary pools of both widths; values that do not fit are refused, never truncated ---
        for large in (0, 1):
            w = 8 if large else 4
            for off in pool(vmax(w), rng, 6) + [0x01020304, 0x0102030405060708 & vmax(w), 0xFFFFFFFF, 0x100000000 & vmax(w)]:
                for crc in (0, 1):
                    a = rand_args(rng, rand_conf(rng, crc=crc, large=large))
                    a["offset"] = off
                    yield Case({"op": "fd_pack", **a}, "valid", tag="offset-boundary")
                    yield dec_case(spec_fd(a), "offset-boundary", rng.choice([b"", rbytes(rng, 4)]))
            for off in [vmax(w) + 1, vmax(w) + 2, 2 * vmax(w) + 1, (vmax(w) + 1) * 256, 1 << 70, vmax(w) + rng.randint(1, 1 << 30)]:
                for _ in range(3):
                    a = rand_args(rng, rand_conf(rng, large=large))
                    a["offset"] = off
                    yield Case({"op": "fd_pack_offset", **a}, "valid", tag="offset-too-large")
                    yield Case({"op": "fd_new", **a}, "valid", tag="offset-too-large")
            for off in [0, 1, vmax(w)]:
                a = rand_args(rng, rand_conf(rng, large=large))
                a["offset"] = off
                yield Case({"op": "fd_pack_offset", **a}, "valid", tag="offset-fits")

        # --- file data lengths: empty, small, the largest the 16-bit length field can describe, one more ---
        for crc in (0, 1):
            for large in (0, 1):
                for ml in (None, 0, 63):
                    c = rand_conf(rng, crc=crc, large=large)
                    room = 65535 - (8 if large else 4) - 2 * crc - (0 if ml is None else 1 + ml)
                    for dl in [0, 1, room - 1, room]:
                        a = rand_args(rng, c, dl=dl, ml=ml, p_none=1.0)
                        if ml is None:
                            a.update(meta=None, state=None)
                        yield Case({"op": "fd_pack", **a}, "valid", tag="data-len-boundary")
                        if dl >= room - 1:
                            raw = spec_fd(a)
                            yield dec_case(raw, "data-len-boundary", rng.choice([b"", b"\x00"]))
                            yield dec_case(raw[:-1], "data-len-boundary")
                    for dl in [room + 1, room + 2, 70000]:
                        a = rand_args(rng, c, dl=dl, ml=ml, p_none=1.0)
                        if ml is None:
                            a.update(meta=None, state=None)
                        yield Case({"op": "fd_new", **a}, "invalid", errclass=True, tag="data-too-long")

        # --- constructor: ID widths that differ are refused; the direction is forced towards the receiver ---
        for w1 in WIDTHS:
            for w2 in WIDTHS:
                if w1 != w2:
                    a = rand_args(rng)
                    a.update(src_w=w1, src_v=rand_val(rng, w1), dst_w=w2, dst_v=rand_val(rng, w2))
                    yield Case({"op": "fd_new", **a}, "invalid", errclass=True, tag="width-mismatch")

        # --- random full PDUs, suffixes, truncations, substitutions ---
        n = 60000 if thorough else 2500
        for i in range(n):
            a = rand_args(rng)
            yield Case({"op": "fd_pack", **a, "via": i % 2}, "valid", tag="random")
            raw = spec_fd(a)
            sfx = rng.choice([b"", b"", rbytes(rng, 1), rbytes(rng, 2), rbytes(rng, 8), raw, rbytes(rng, 16)])
            yield dec_case(raw, "random+suffix", sfx, via=(i // 2) % 2)
            if i % 12 == 0:
                for cut in range(len(raw)):
                    yield dec_case(raw[:cut], "truncation")
            if i % 25 == 0:
                # the type bit is not part of what the decoder checks; direction towards the sender
                for o0 in (raw[0] & ~0x10, raw[0] | 0x08, (raw[0] & ~0x10) | 0x08):
                    b = bytearray(raw)
                    b[0] = o0
                    if a["crc"]:
                        b = bytearray(with_crc(bytes(b[:-2])))
                    yield dec_case(bytes(b), "type/direction-bit", rng.choice([b"", rbytes(rng, 2)]))
            if i % 40 == 0:
                # declared length rewritten around the true one (CRC made to match the declared PDU when possible)
                hl = 4 + 2 * a["src_w"] + a["seq_w"]
                true = dlen_of(a)
                for d in sorted({0, 1, 2, 3, 4, 5, 8, 9, 10, 11, true - 9, true - 5, true - 3, true - 2, true - 1, true,
                                 true + 1, true + 2, true + 8, 65535}):
                    if d < 0:
                        continue
                    b = bytearray(raw) + rbytes(rng, 12)
                    b[1], b[2] = d >> 8, d & 0xFF
                    total = hl + d
                    if a["crc"] and 2 <= d and total <= len(b):
                        b = bytearray(with_crc(bytes(b[: total - 2]))) + b[total:]
                    yield dec_case(bytes(b), "declared-length")
            if i % 60 == 0:
                for pos in (0, 3):
                    for v in range(256):
                        b = bytearray(raw + sfx)
                        b[pos] = v
                        yield dec_case(bytes(b), f"octet{pos}-substitution", force="any")
            if i % 30 == 0 and a["crc"]:
                # one flipped bit outside the four fixed header octets: never accepted
                for _ in range(6):
                    b = bytearray(raw)
                    b[rng.randrange(4, len(b))] ^= 1 << rng.randint(0, 7)
                    yield dec_case(bytes(b), "crc-bitflip", force="invalid")
                # a trailer that is right for buffer+suffix but not for the declared PDU
                wrong = with_crc(raw[:-2] + rbytes(rng, 3))
                yield dec_case(wrong, "crc-over-buffer")

        # --- crafted: CRC flag with a data field too short to hold the trailer / the offset, CRC matching ---
        for _ in range(200 if thorough else 30):
            for segmeta in (0, 1):
                for d in (0, 1, 2, 3, 4, 5, 6, 9, 10, 11):
                    c = rand_conf(rng, crc=1)
                    h = dict(c)
                    h.update(ptype=1, segmeta=segmeta, dlen=d)
                    hdr = hdr_spec_pack(h)
                    if d >= 2:
                        raw = with_crc(hdr + rbytes(rng, d - 2))
                    else:
                        # make the header itself have CRC residue zero: the last two header octets are the trailer
                        raw = with_crc(hdr[:-2]) + rbytes(rng, d)
                    yield dec_case(raw + rbytes(rng, rng.choice([0, 0, 5])), "crafted-short-crc")
        for _ in range(100 if thorough else 20):
            for segmeta in (0, 1):
                c = rand_conf(rng, crc=0)
                for d in range(0, 12):
                    h = dict(c)
                    h.update(ptype=1, segmeta=segmeta, dlen=d)
                    yield dec_case(hdr_spec_pack(h) + rbytes(rng, d + rng.choice([0, 0, 4])), "crafted-short")

        # --- random octet strings with a bias towards plausible headers ---
        for _ in range(60000 if thorough else 3000):
            ln = rng.randint(0, 48)
            b = bytearray(rbytes(rng, ln))
            if ln > 0 and rng.random() < 0.85:
                b[0] = 0x20 | (b[0] & 0x1F)
                if rng.random() < 0.7:
                    b[0] &= ~0x02
            if ln > 3 and rng.random() < 0.8:
                b[3] = (b[3] & 0x88) | (rng.choice([0, 1, 3, 7]) << 4) | rng.choice([0, 1, 3, 7])
            if ln > 2 and rng.random() < 0.8:
                b[1], b[2] = 0, rng.randint(0, max(0, ln - 4))
            yield dec_case(bytes(b), "random-octets")

        # --- setter sequences (state transitions): after every call reported length = packed length ---
        for i in range(12000 if thorough else 700):
            a = rand_args(rng)
            steps = rand_steps(rng, rng.randint(1, 40 if thorough else 8), refuse=(i % 4 == 0))
            yield Case({"op": "fd_seq", **a, "steps": steps}, "valid", tag="setter-sequence")
            if i % 3 == 0:
                b = rand_args(rng)
                yield Case({"op": "fd_useq", "raw": hx(spec_fd(b)), "suffix": hx(rbytes(rng, rng.choice([0, 0, 3]))),
                            "steps": steps}, "valid", tag="setter-sequence-after-unpack")
        # --- refused setter calls: the object is unchanged (params, flag, lengths, octets) and the sequence goes on ---
        for crc in (0, 1):
            for large in (0, 1):
                for ml0 in (None, 0, 7):
                    a = rand_args(rng, rand_conf(rng, crc=crc, large=large), ml=ml0, p_none=1.0 if ml0 is None else 0.0)
                    if ml0 is None:
                        a.update(meta=None, state=None)
                    room = 65535 - (8 if large else 4) - 2 * crc
                    cur = 0 if ml0 is None else 1 + ml0
                    a["data"] = hx(rbytes(rng, room - cur))       # exactly at the 16-bit limit
                    grow = {"set": "meta", "meta": hx(rbytes(rng, 0 if ml0 is None else ml0 + 1)), "state": rng.randint(0, 3)}
                    steps = [grow,                                                       # refused (flag must stay)
                             {"set": "data", "data": hx(rbytes(rng, room - cur + 1))},    # refused
                             {"set": "data", "data": hx(rbytes(rng, rng.randint(0, 9)))},  # accepted
                             {"set": "meta", "meta": hx(rbytes(rng, 63)), "state": rng.randint(0, 3)},  # accepted
                             {"set": "data", "data": hx(rbytes(rng, room - 63))},         # refused (one too long)
                             {"set": "data", "data": hx(rbytes(rng, room - 64))},         # accepted, at the limit
                             {"set": "meta", "meta": hx(rbytes(rng, 64)), "state": 0},    # refused
                             {"set": "meta", "meta": None, "state": None},                # accepted
                             {"set": "data", "data": hx(rbytes(rng, room + 1))},          # refused
                             {"set": "data", "data": hx(rbytes(rng, room))}]              # accepted, at the limit
                    yield Case({"op": "fd_seq", **a, "steps": steps}, "valid", tag="setter-refused-continues")
                    yield Case({"op": "fd_seq", **a, "steps": [grow]}, "valid", tag="setter-refused-continues")
                    b = dict(a)
                    b["data"] = hx(rbytes(rng, 3))
                    yield Case({"op": "fd_useq", "raw": hx(spec_fd(b)), "suffix": "",
                                "steps": [{"set": "data", "data": hx(rbytes(rng, room - cur + 1))}, grow,
                                          {"set": "data", "data": hx(rbytes(rng, room - cur))}, grow,
                                          {"set": "data", "data": ""}, grow]},
                               "valid", tag="setter-refused-continues")
        for i in range(300 if thorough else 24):
            a = rand_args(rng)
            steps = rand_steps(rng, rng.randint(2, 12 if thorough else 6), refuse=True, p_refuse=0.4)
            yield Case({"op": "fd_seq", **a, "steps": steps}, "valid", tag="setter-refused-continues")
        # single setter calls on every (CRC, large-file, metadata present/absent) state
        for crc in (0, 1):
            for large in (0, 1):
                for ml in (None, 0, 5, 63):
                    for nm in (None, 0, 1, 63):
                        a = rand_args(rng, rand_conf(rng, crc=crc, large=large), ml=ml, p_none=1.0)
                        if ml is None:
                            a.update(meta=None, state=None)
                        st = {"set": "meta", "meta": None, "state": None} if nm is None else \
                            {"set": "meta", "meta": hx(rbytes(rng, nm)), "state": rng.randint(0, 3)}
                        yield Case({"op": "fd_seq", **a, "steps": [st]}, "valid", tag="setter-single")
                        yield Case({"op": "fd_seq", **a, "steps": [{"set": "data", "data": hx(rbytes(rng, rng.choice([0, 1, 30])))}]},
                                   "valid", tag="setter-single")
                        yield Case({"op": "fd_seq", **a, "steps": [st, {"set": "data", "data": ""}]}, "valid", tag="setter-single")

        # --- maximum file segment length ---
        for i in range(4000 if thorough else 400):
            c = rand_conf(rng)
            if i % 10 == 0:
                # the function only looks at the configuration: widths need not agree, fields may be empty
                w2 = rng.choice([0] + WIDTHS)
                c.update(dst_w=w2, dst_v=rand_val(rng, w2) if w2 else 0)
            m = rand_meta(rng, rng.choice([None, None, 0, 1, 63, 64, 200]) if i % 3 else None, 0.5)
            base = 4 + c["src_w"] + c["dst_w"] + c["seq_w"] + (8 if c["large"] else 4) + 2 * c["crc"] + \
                (0 if m["meta"] is None else 1 + len(m["meta"]) // 2)
            for mx in {base - 1, base, base + 1, base + rng.randint(2, 2000), 0, 65535, 65536, -1, -rng.randint(2, 100),
                       rng.randint(0, base)}:
                ok = mx >= base
                yield Case({"op": "fd_max_seg", **c, **m, "max_len": mx}, "valid" if ok else "invalid", errclass=True,
                           tag="max-seg")
        for i in range(2000 if thorough else 200):
            a = rand_args(rng)
            base = 4 + 2 * a["src_w"] + a["seq_w"] + (8 if a["large"] else 4) + 2 * a["crc"] + meta_len(a)
            for mx in (base - 1, base, base + 1, base + rng.randint(2, 5000)):
                yield Case({"op": "fd_max_seg_obj", **a, "max_len": mx}, "valid" if mx >= base else "invalid",
                           errclass=True, tag="max-seg-object")

        # --- equality ---
        for _ in range(3000 if thorough else 300):
            a = rand_args(rng)
            b = {"data2": a["data"], "offset2": a["offset"], "meta2": a["meta"], "state2": a["state"]}
            r = rng.randint(0, 5)
            if r == 1:
                b["data2"] = hx(rbytes(rng, len(a["data"]) // 2 + 1)) if rng.random() < 0.5 else a["data"][:-2] if a["data"] else "00"
            elif r == 2:
                b["offset2"] = a["offset"] ^ (1 << rng.randint(0, 31))
            elif r == 3:
                if a["meta"] is None:
                    b.update(meta2="", state2=0)
                else:
                    b.update(meta2=None, state2=None)
            elif r == 4 and a["meta"] is not None:
                b["state2"] = (a["state"] + 1) % 4
            elif r == 5 and a["meta"] is not None:
                b["meta2"] = a["meta"] + "00" if len(a["meta"]) < 126 else a["meta"][:-2]
            yield Case({"op": "fd_eq", **a, **b}, "valid", tag="equality")

        # --- state leaking between calls / objects (the ops look again at the PDUs decoded by the previous calls and
        #     hand the same PduConfig instance to cases with equal configuration parameters) ---
        for i in range(2000 if thorough else 120):
            ca = rand_conf(rng)
            cb = contrast_conf(ca)
            # one configuration through the constructor several times, the one differing in every field, the first again
            for c in (ca, ca, cb, ca):
                yield Case({"op": "fd_pack", **rand_args(rng, c), "via": i % 2}, "valid", tag="shared-config")
            yield Case({"op": "fd_new", **rand_args(rng, ca)}, "valid", tag="shared-config")
            if i % 4 == 0:
                a = rand_args(rng, ca)
                base = 4 + 2 * a["src_w"] + a["seq_w"] + (8 if a["large"] else 4) + 2 * a["crc"] + meta_len(a)
                yield Case({"op": "fd_max_seg_obj", **a, "max_len": base + rng.randint(0, 3000)}, "valid", tag="shared-config")
                yield Case({"op": "fd_pack", **rand_args(rng, ca)}, "valid", tag="shared-config")
            # decode A, then B (every configuration field differs), then A again
            for c in (ca, cb, ca):
                yield dec_case(spec_fd(rand_args(rng, c)), "isolation-pair", rng.choice([b"", b"", rbytes(rng, 3)]),
                               via=i % 2)


PROP = C07()
