"""C01 — Space Packet primary header (CCSDS 133.0-B-2)"""
import random
import sys
from typing import Any, Dict, Iterator

import core
from core import Case, Prop, SelfCheckFailure
from gen import hx, unhx, pool, out_pool, rbytes

import spacepackets.ccsds.spacepacket as sp
from spacepackets.ccsds.spacepacket import (
    SpacePacketHeader, SpacePacket, PacketId, PacketSeqCtrl, PacketType, SequenceFlags,
)


def _hdr(a):
    return SpacePacketHeader(
        packet_type=PacketType(a["ptype"]), apid=a["apid"], seq_count=a["count"], data_len=a["dlen"],
        sec_header_flag=bool(a["shf"]), seq_flags=SequenceFlags(a["flags"]), ccsds_version=a["version"])


# the exhaustive word sweeps decode ~200 000 headers: they look back one object only (run time)
_ISO_SWEEP = core.Isolation(keep=1)


def _fields(h: SpacePacketHeader):
    return {"version": int(h.ccsds_version), "ptype": int(h.packet_type), "shf": int(bool(h.sec_header_flag)),
            "apid": int(h.apid), "flags": int(h.seq_flags), "count": int(h.seq_count), "dlen": int(h.data_len),
            "packet_len": int(h.packet_len)}


# ---- the application modifies a header it decoded (a received TC header turned into the header of the TM reply), then
#      decodes again: case key "mut" = which public setters it uses (bit mask, see _mutate); implementation side only ----
_MUT_ALL = 127


def _mutate(mask: int):
    def mutate(h: SpacePacketHeader):
        old = {n: getattr(h, n) for n in ("apid", "packet_type", "sec_header_flag", "seq_count", "seq_flags")}
        old_len = h.data_len
        ts = core.tolerant_set
        if mask & 1:
            ts(h, "apid", int(old["apid"]) ^ 0x2A5)
        if mask & 2:
            ts(h, "packet_type", PacketType(1 - int(old["packet_type"])))
        if mask & 4:
            ts(h, "sec_header_flag", not bool(old["sec_header_flag"]))
        if mask & 8:
            ts(h, "seq_count", int(old["seq_count"]) ^ 0x1555)
        if mask & 16:
            ts(h, "seq_flags", SequenceFlags((int(old["seq_flags"]) + 1) % 4))
        if mask & 32:
            ts(h, "data_len", int(old_len) ^ 0x5A5A)
        if mask & 64:
            # the composite views are public too
            ts(h.packet_id, "apid", (int(h.apid) + 1) % 2048)
            ts(h.packet_seq_control, "seq_count", (int(h.seq_count) + 1) % 16384)

        def undo():
            if mask & 64:
                ts(h.packet_id, "apid", old["apid"])
                ts(h.packet_seq_control, "seq_count", old["seq_count"])
            for n, v in old.items():
                ts(h, n, v)
            ts(h, "data_len", old_len)
        return undo
    return mutate


def _redecode_probe(raw: bytes, mask: int):
    """decode, modify the decoded header through its setters, decode again: the same octets, octets with the same first
    word but every other bit different, and octets with the same second / third word but another first word"""
    inv = lambda b: bytes(x ^ 0xFF for x in b)  # noqa: E731
    others = [raw[:2] + inv(raw[2:6]) + raw[6:], inv(raw[:2]) + raw[2:], raw[:4] + inv(raw[4:6])]
    core.redecode_after_mutation(SpacePacketHeader.unpack, raw, _fields, _mutate(mask), "SpacePacketHeader.unpack", others)


# ---- key "fac" (not read by the model ops): {"name": <factory of props/c11.py FACTORIES>, "p": <its values>} - the factory is
#      called several times, one result is modified through its public setters / attributes, the other results and a later
#      call must show what they showed (core.factory_independent). The op line is the carrier; its own result is compared
#      with the model as always ----
C01_FACTORIES = ["PacketId.empty()", "PacketId.from_raw(raw)", "PacketSeqCtrl.empty()", "PacketSeqCtrl.from_raw(raw)",
                 "SpacePacketHeader.from_composite_fields(packet_id, psc, data_length)"]


def _factory_probe(a):
    fac = a.get("fac")
    if fac:
        import props.c11 as c11       # the table of factory probes lives with the mutation property
        c11.op_factory({"factory": fac["name"], "p": fac["p"]})


def op_sph_new(a):
    _factory_probe(a)
    h = _hdr(a)
    f = _fields(h)
    # composite views agree with the flat ones
    if h.packet_id.raw() != (f["ptype"] << 12 | f["shf"] << 11 | f["apid"]):
        raise SelfCheckFailure("packet_id.raw() disagrees with the header fields")
    if h.packet_seq_control.raw() != (f["flags"] << 14 | f["count"]):
        raise SelfCheckFailure("packet_seq_control.raw() disagrees with the header fields")
    h2 = SpacePacketHeader.from_composite_fields(h.packet_id, h.packet_seq_control, h.data_len, h.ccsds_version)
    if _fields(h2) != f or not (h2 == h):
        raise SelfCheckFailure("from_composite_fields does not rebuild an equal header")
    return f


def op_sph_pack(a):
    h = _hdr(a)
    # (packs twice, the caller modifying the first returned buffer in between)
    raw = core.pack_stable(h, "SpacePacketHeader.pack()")
    h2 = SpacePacketHeader.unpack(raw)
    if not (h2 == h) or core.ISOLATION.check("SpacePacketHeader", h2, _fields) != _fields(h):
        raise SelfCheckFailure("unpack(pack(h)) is not equal to h")
    if a.get("mut"):
        _redecode_probe(raw, a["mut"])
        if _fields(SpacePacketHeader.unpack(raw)) != _fields(h):
            raise SelfCheckFailure("unpack(pack(h)) no longer shows the fields of h after a header decoded earlier was modified")
    return {"raw": hx(raw)}


def op_sph_unpack(a):
    raw = unhx(a["raw"])
    if a.get("mut") and len(raw) >= 6:
        _redecode_probe(raw, a["mut"])
    h = SpacePacketHeader.unpack(raw)
    # headers decoded by earlier calls must still show what they showed then
    f = _ISO_SWEEP.check("SpacePacketHeader", h, _fields)
    if core.pack_stable(h, "SpacePacketHeader.pack() of a decoded header") != raw[:6]:
        raise SelfCheckFailure("pack(unpack(b)) != b[:6]")
    return f


def op_pid_raw(a):
    return {"raw": int(PacketId(PacketType(a["ptype"]), bool(a["shf"]), a["apid"]).raw())}


def op_pid_from_raw(a):
    _factory_probe(a)
    p = PacketId.from_raw(a["raw"])
    return {"ptype": int(p.ptype), "shf": int(bool(p.sec_header_flag)), "apid": int(p.apid)}


def op_psc_raw(a):
    return {"raw": int(PacketSeqCtrl(SequenceFlags(a["flags"]), a["count"]).raw())}


def op_psc_from_raw(a):
    _factory_probe(a)
    p = PacketSeqCtrl.from_raw(a["raw"])
    return {"flags": int(p.seq_flags), "count": int(p.seq_count)}


def op_sp_pack(a):
    h = _hdr(a)
    sec = None if a["sec"] is None else unhx(a["sec"])
    user = None if a["user"] is None else unhx(a["user"])
    return {"raw": hx(core.pack_stable(SpacePacket(h, sec, user), "SpacePacket.pack()"))}


def op_apid_from_raw(a):
    return {"apid": int(sp.get_apid_from_raw_space_packet(unhx(a["raw"])))}


def op_id_bytes(a):
    b0, b1 = sp.get_space_packet_id_bytes(PacketType(a["ptype"]), bool(a["shf"]), a["apid"], a["version"])
    return {"b0": int(b0), "b1": int(b1)}


def op_total_len(a):
    return {"len": int(sp.get_total_space_packet_len_from_len_field(a["len_field"]))}


OPS = {
    "sph_new": op_sph_new, "sph_pack": op_sph_pack, "sph_unpack": op_sph_unpack, "pid_raw": op_pid_raw,
    "pid_from_raw": op_pid_from_raw, "psc_raw": op_psc_raw, "psc_from_raw": op_psc_from_raw,
    "sp_pack": op_sp_pack, "apid_from_raw": op_apid_from_raw, "id_bytes": op_id_bytes, "total_len": op_total_len,
}


def rand_hdr(rng: random.Random) -> Dict[str, Any]:
    return {"version": rng.randint(0, 7), "ptype": rng.randint(0, 1), "shf": rng.randint(0, 1),
            "apid": rng.randint(0, 2047), "flags": rng.randint(0, 3), "count": rng.randint(0, 16383),
            "dlen": rng.randint(0, 65535)}


class C01(Prop):
    id = "C01"
    title = "Space Packet primary header"
    lean_modules = ["SpVerif.Props.C01"]
    exhaustive_note = ("all 65536 values of each of the three header words through unpack (other octets random); "
                       "all 8192 packet-id words and all 65536 sequence-control words through from_raw/raw")
    trusted_base = ["arithmetic normal form of the model vs shifts/masks of the code: tied by the exhaustive 16-bit word sweeps"]

    def impl_ops(self):
        return OPS

    def table_sync(self):
        d = []
        exp = {"CCSDS_HEADER_LEN": 6, "SPACE_PACKET_HEADER_SIZE": 6, "SEQ_FLAG_MASK": 0xC000, "APID_MASK": 0x7FF,
               "PACKET_ID_MASK": 0x1FFF, "MAX_SEQ_COUNT": 16383, "MAX_APID": 2047}
        for k, v in exp.items():
            if getattr(sp, k, None) != v:
                d.append(f"spacepacket.{k}={getattr(sp, k, None)!r} model={v}")
        if [int(x) for x in PacketType] != [0, 1]:
            d.append("PacketType members")
        if [int(x) for x in SequenceFlags] != [0, 1, 2, 3]:
            d.append("SequenceFlags members")
        return d

    def nontrivial(self, c: Case) -> bool:
        o = c.op
        if "raw" in o and isinstance(o["raw"], str):
            return o["raw"].strip("0") != ""
        return any(v not in (0, None, False, "") for k, v in o.items() if k != "op")

    def cases(self, rng: random.Random, tier: str) -> Iterator[Case]:
        thorough = tier == "thorough"
        # --- exhaustive word sweeps through the decoder ---
        base = bytearray(rbytes(rng, 6))
        for word in range(3):
            for w in range(65536):
                b = bytearray(base)
                b[2 * word] = w >> 8
                b[2 * word + 1] = w & 0xFF
                sfx = rbytes(rng, w % 3)
                yield Case({"op": "sph_unpack", "raw": hx(bytes(b) + sfx)}, "valid", tag=f"word{word}-sweep")
        for w in range(8192):
            yield Case({"op": "pid_from_raw", "raw": w}, "valid", tag="pid-sweep")
        for w in range(65536):
            yield Case({"op": "psc_from_raw", "raw": w}, "valid", tag="psc-sweep")
        for w in [65536, 65537, 1 << 16 | 0x3FFF, 1 << 20, (1 << 32) + 5]:
            yield Case({"op": "psc_from_raw", "raw": w}, "invalid", tag="psc-beyond-16-bit")
            yield Case({"op": "pid_from_raw", "raw": w}, "valid", tag="pid-beyond-13-bit")
        # --- boundary pools through constructor and pack ---
        apids, counts, dlens = pool(2047, rng), pool(16383, rng), pool(65535, rng)
        for v in range(8):
            for t in (0, 1):
                for s in (0, 1):
                    for f in range(4):
                        a, c, d = rng.choice(apids), rng.choice(counts), rng.choice(dlens)
                        h = {"version": v, "ptype": t, "shf": s, "apid": a, "flags": f, "count": c, "dlen": d}
                        yield Case({"op": "sph_pack", **h}, "valid", tag="flags-all")
                        yield Case({"op": "sph_new", **h}, "valid", tag="flags-all")
        for a in apids:
            for c in counts:
                h = rand_hdr(rng)
                h.update(apid=a, count=c, dlen=rng.choice(dlens))
                yield Case({"op": "sph_pack", **h}, "valid", tag="boundary")
                yield Case({"op": "pid_raw", "ptype": h["ptype"], "shf": h["shf"], "apid": a}, "valid", tag="boundary")
                yield Case({"op": "psc_raw", "flags": h["flags"], "count": c}, "valid", tag="boundary")
                yield Case({"op": "id_bytes", "version": h["version"], "ptype": h["ptype"], "shf": h["shf"], "apid": a}, "valid", tag="boundary")
        for d in dlens:
            h = rand_hdr(rng)
            h["dlen"] = d
            yield Case({"op": "sph_pack", **h}, "valid", tag="boundary")
            yield Case({"op": "total_len", "len_field": d}, "valid", tag="boundary")
        # --- out-of-range values are refused with ValueError ---
        for fld, mx in (("apid", 2047), ("count", 16383), ("dlen", 65535)):
            for bad in out_pool(mx, rng):
                h = rand_hdr(rng)
                h[fld] = bad
                yield Case({"op": "sph_new", **h}, "invalid", errclass=True, tag=f"bad-{fld}")
                yield Case({"op": "sph_pack", **h}, "invalid", errclass=True, tag=f"bad-{fld}")
                if fld == "apid":
                    yield Case({"op": "pid_raw", "ptype": h["ptype"], "shf": h["shf"], "apid": bad}, "invalid", errclass=True, tag="bad-apid")
                if fld == "count":
                    yield Case({"op": "psc_raw", "flags": h["flags"], "count": bad}, "invalid", errclass=True, tag="bad-count")
        # --- random full tuples: pack, unpack(pack ‖ suffix), generic packet ---
        n = 200000 if thorough else 20000
        for i in range(n):
            h = rand_hdr(rng)
            yield Case({"op": "sph_pack", **h}, "valid", tag="random")
            if i % 4 == 0:
                raw = bytes(_hdr(h).pack()) if i % 8 else rbytes(rng, 6)
                yield Case({"op": "sph_unpack", "raw": hx(raw + rbytes(rng, rng.choice([0, 0, 1, 2, 7, 30])))}, "valid", tag="random+suffix")
            if i % 10 == 0:
                sec = rbytes(rng, rng.randint(0, 12))
                user = rbytes(rng, rng.randint(0, 40))
                mode = rng.randint(0, 3)
                secv = hx(sec) if mode & 1 else None
                userv = hx(user) if mode & 2 else None
                ok = (h["shf"] == 1 and secv is not None) or (h["shf"] == 0 and userv is not None)
                yield Case({"op": "sp_pack", **h, "sec": secv, "user": userv}, "valid" if ok else "invalid",
                           errclass=not ok, tag="generic-packet")
        # --- back-to-back decodes of headers that differ in every bit (an object decoded earlier must not follow) ---
        for _ in range(2000 if thorough else 200):
            raw = rbytes(rng, 6)
            yield Case({"op": "sph_unpack", "raw": hx(raw)}, "valid", tag="complement-pair")
            yield Case({"op": "sph_unpack", "raw": hx(bytes(x ^ 0xFF for x in raw) + rbytes(rng, 2))}, "valid", tag="complement-pair")
            yield Case({"op": "sph_pack", **rand_hdr(rng)}, "valid", tag="complement-pair")
        # --- the application modifies a decoded header through its setters (each setter alone, all together, random
        #     subsets), then decodes the same octets / octets sharing a word with them (key "mut", see _mutate) ---
        masks = [1, 2, 4, 8, 16, 32, 64, _MUT_ALL]
        for i in range(20000 if thorough else 2500):
            m = masks[i % 8] if i % 2 == 0 else rng.randint(1, _MUT_ALL)
            if i % 3 == 0:
                raw = bytes(_hdr(rand_hdr(rng)).pack())
            else:
                raw = rbytes(rng, 6)
            yield Case({"op": "sph_unpack", "raw": hx(raw + rbytes(rng, rng.choice([0, 0, 1, 4]))), "mut": m}, "valid",
                       tag="setters-then-decode")
            if i % 5 == 0:
                yield Case({"op": "sph_pack", **rand_hdr(rng), "mut": m}, "valid", tag="setters-then-decode")
        # --- short input ---
        for ln in range(0, 6):
            for _ in range(20):
                raw = rbytes(rng, ln)
                yield Case({"op": "sph_unpack", "raw": hx(raw)}, "invalid", errclass=True, tag="short")
                yield Case({"op": "apid_from_raw", "raw": hx(raw)}, "invalid", errclass=True, tag="short")
        for _ in range(2000):
            yield Case({"op": "apid_from_raw", "raw": hx(rbytes(rng, rng.randint(6, 12)))}, "valid", tag="random")
        # --- results of the factories are objects of their own (key "fac", see _factory_probe) ---
        import props.c11 as c11
        for _ in range(40 if thorough else 6):
            for name in C01_FACTORIES:
                p = c11.factory_params(rng)
                fac = {"name": name, "p": p}
                if name.startswith("PacketId"):
                    yield Case({"op": "pid_from_raw", "raw": 0 if "empty" in name else p["raw16"] & 0x1FFF, "fac": fac}, "valid",
                               tag="factory-independence")
                elif name.startswith("PacketSeqCtrl"):
                    yield Case({"op": "psc_from_raw", "raw": 0 if "empty" in name else p["raw16"], "fac": fac}, "valid",
                               tag="factory-independence")
                else:
                    yield Case({"op": "sph_new", **rand_hdr(rng), "fac": fac}, "valid", tag="factory-independence")


PROP = C01()
