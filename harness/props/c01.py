"""C01 — Space Packet primary header (CCSDS 133.0-B-2)"""
import random
import sys
from typing import Any, Dict, Iterator

import core
from core import Case, Prop, SelfCheckFailure
from gen import hx, unhx, pool, out_pool, rbytes

import spacepackets.ccsds.spacepacket as sp
from spacepackets.ccsds.spacepacket import (
    SpacePacketHeader, SpacePacket, PacketId, PacketSeqCtrl, PacketType, SequenceFlags,
)


def _hdr(a):
    return SpacePacketHeader(
        packet_type=PacketType(a["ptype"]), apid=a["apid"], seq_count=a["count"], data_len=a["dlen"],
        sec_header_flag=bool(a["shf"]), seq_flags=SequenceFlags(a["flags"]), ccsds_version=a["version"])


# the exhaustive word sweeps decode ~200 000 headers: they look back one object only (run time)
_ISO_SWEEP = core.Isolation(keep=1)


def _fields(h: SpacePacketHeader):
    return {"version": int(h.ccsds_version), "ptype": int(h.packet_type), "shf": int(bool(h.sec_header_flag)),
            "apid": int(h.apid), "flags": int(h.seq_flags), "count": int(h.seq_count), "dlen": int(h.data_len),
            "packet_len": int(h.packet_len)}


# ---- the application modifies a header it decoded (a received TC header turned into the header of the TM reply), then
#      decodes again: case key "mut" = which public setters it uses (bit mask, see _mutate); implementation side only ----
_MUT_ALL = 127


def _mutate(mask: int):
    def mutate(h: SpacePacketHeader):
        old = {n: getattr(h, n) for n in ("apid", "packet_type", "sec_header_flag", "seq_count", "seq_flags")}
        old_len = h.data_len
        ts = core.tolerant_set
        if mask & 1:
            ts(h, "apid", int(old["apid"]) ^ 0x2A5)
        if mask & 2:
            ts(h, "packet_type", PacketType(1 - int(old["packet_type"])))
        if mask & 4:
            ts(h, "sec_header_flag", not bool(old["sec_header_flag"]))
        if mask & 8:
            ts(h, "seq_count", int(old["seq_count"]) ^ 0x1555)
        if mask & 16:
            ts(h, "seq_flags", SequenceFlags((int(old["seq_flags"]) + 1) % 4))
        if mask & 32:
            ts(h, "data_len", int(old_len) ^ 0x5A5A)
        if mask & 64:
            # the composite views are public too
            ts(h.packet_id, "apid", (int(h.apid) + 1) % 2048)
            ts(h.packet_seq_control, "seq_count", (int(h.seq_count) + 1) % 16384)

        def undo():
            if mask & 64:
                ts(h.packet_id, "apid", old["apid"])
                ts(h.packet_seq_control, "seq_count", old["seq_count"])
            for n, v in old.items():
                ts(h, n, v)
            ts(h, "data_len", old_len)
        return undo
    return mutate


def _redecode_probe(raw: bytes, mask: int):
    """decode, modify the decoded header through its setters, decode again: the same octets, octets with the same first
    word but every other bit different, and octets with the same second / third word but another first word"""
    inv = lambda b: bytes(x ^ 0xFF for x in b)  # noqa: E731
    others = [raw[:2] + inv(raw[2:6]) + raw[6:], inv(raw[:2]) + raw[2:], raw[:4] + inv(raw[4:6])]
    core.redecode_after_mutation(SpacePacketHeader.unpack, raw, _fields, _mutate(mask), "SpacePacketHeader.unpack", others)


# ---- key "fac" (not read by the model ops): {"name": <factory of props/c11.py FACTORIES>, "p": <its values>} - the factory is
#      called several times, one result is modified through its public setters / attributes, the other results and a later
#      call must show what they showed (core.factory_independent). The op line is the carrier; its own result is compared
#      with the model as always ----
C01_FACTORIES = ["PacketId.empty()", "PacketId.from_raw(raw)", "PacketSeqCtrl.empty()", "PacketSeqCtrl.from_raw(raw)",
                 "SpacePacketHeader.from_composite_fields(packet_id, psc, data_length)"]


def _factory_probe(a):
    fac = a.get("fac")
    if fac:
        import props.c11 as c11       # the table of factory probes lives with the mutation property
        c11.op_factory({"factory": fac["name"], "p": fac["p"]})


# ---- derived values a packet ID / a sequence control / a header remembers (case key "hist" of pid_raw / psc_raw / sph_pack /
#      sph_new; not read by the model ops): the object is obtained with OTHER values (constructor, from_raw, decoded, composite
#      fields, taken out of a header, copied), some or all of its derived views are read (raw(), pack(), ==, hash where defined,
#      packet_len, the header's flat views, the generic packet made of it), then it is given the case's values through its public
#      attributes / the header's setters / by replacing the part (where the implementation takes that), and every view is read again
#      in the order of the case: it shows what an object built directly with the case's values shows, and the op goes on with it
#      (its result is compared with the model's answer for the case's values) ----
HDR_KEYS = ["version", "ptype", "shf", "apid", "flags", "count", "dlen"]
HDR_VIEW_NAMES = ["pack", "fields", "pid_raw", "psc_raw", "eq", "hash", "len", "generic", "composite"]
PID_VIEW_NAMES = ["raw", "fields", "eq", "hash", "in_header"]
PSC_VIEW_NAMES = ["raw", "fields", "eq", "hash", "in_header"]
# what a step of a header history assigns (header attribute, or attribute of the part the header hands out, or the part itself)
HDR_STEPS = {"apid": ["apid"], "packet_type": ["ptype"], "sec_header_flag": ["shf"], "seq_flags": ["flags"], "seq_count": ["count"],
             "data_len": ["dlen"], "ccsds_version": ["version"], "pid.apid": ["apid"], "pid.ptype": ["ptype"],
             "pid.sec_header_flag": ["shf"], "psc.seq_flags": ["flags"], "psc.seq_count": ["count"],
             "packet_id": ["ptype", "shf", "apid"], "packet_seq_control": ["flags", "count"]}
_HDR_ATTR = {"version": "ccsds_version", "ptype": "packet_type", "shf": "sec_header_flag", "apid": "apid", "flags": "seq_flags",
             "count": "seq_count", "dlen": "data_len"}
_PART_ATTR = {"ptype": "ptype", "shf": "sec_header_flag", "apid": "apid", "flags": "seq_flags", "count": "seq_count"}
_CONV = {"version": int, "ptype": PacketType, "shf": bool, "apid": int, "flags": SequenceFlags, "count": int, "dlen": int}


class _Immutable(Exception):
    """the implementation does not take the assignment (a value object): there is no history to tell"""


def _assign(obj, name: str, value) -> None:
    """public attribute assignment; a class that refuses assignments as such (frozen / read-only) has no such history -
    any other exception (a setter that refuses a value of the field's range) propagates"""
    try:
        setattr(obj, name, value)
    except (AttributeError, TypeError) as e:
        raise _Immutable(str(e))


def _hash_view(x, equal_twin):
    """'unhashable', or whether the object hashes like an object that holds the same values and compares equal"""
    try:
        h = hash(x)
    except TypeError:
        return "unhashable"
    t = equal_twin()
    return {"equal_objects_hash_equal": (h == hash(t)) or not (x == t)}


def _spec_words(v) -> bytes:
    """the six octets of CCSDS 133.0-B-2 4.1.3 for the field values, by the harness"""
    w0 = (v["version"] << 13) | (v["ptype"] << 12) | (v["shf"] << 11) | v["apid"]
    w1 = (v["flags"] << 14) | v["count"]
    return w0.to_bytes(2, "big") + w1.to_bytes(2, "big") + v["dlen"].to_bytes(2, "big")


def _pid_of(v) -> PacketId:
    return PacketId(PacketType(v["ptype"]), bool(v["shf"]), v["apid"])


def _psc_of(v) -> PacketSeqCtrl:
    return PacketSeqCtrl(SequenceFlags(v["flags"]), v["count"])


def _pid_fields(p):
    return {"ptype": int(p.ptype), "shf": int(bool(p.sec_header_flag)), "apid": int(p.apid)}


def _psc_fields(p):
    return {"flags": int(p.seq_flags), "count": int(p.seq_count)}


def _hdr_views(final):
    def v_eq(h):
        back, ref = SpacePacketHeader.unpack(bytes(h.pack()) + b"\x55"), _hdr(final)
        return {"decoded": [bool(h == back), bool(back == h), bool(h != back)], "final": [bool(h == ref), bool(ref == h), bool(h != ref)],
                "pid": [bool(h.packet_id == ref.packet_id), bool(ref.packet_id == h.packet_id)],
                "psc": [bool(h.packet_seq_control == ref.packet_seq_control), bool(ref.packet_seq_control == h.packet_seq_control)]}
    return [("pack", lambda h: hx(core.pack_stable(h, "SpacePacketHeader.pack()"))), ("fields", _fields),
            ("pid_raw", lambda h: int(h.packet_id.raw())), ("psc_raw", lambda h: int(h.packet_seq_control.raw())), ("eq", v_eq),
            ("hash", lambda h: _hash_view(h, lambda: SpacePacketHeader.unpack(bytes(h.pack())))),
            ("len", lambda h: [int(h.packet_len), int(h.header_len)]),
            ("generic", lambda h: hx(SpacePacket(h, b"\x01\x02", b"\x03").pack())),
            ("composite", lambda h: _fields(SpacePacketHeader.from_composite_fields(h.packet_id, h.packet_seq_control, h.data_len,
                                                                                    h.ccsds_version)))]


def _pid_views(final):
    def v_eq(p):
        back, ref = PacketId.from_raw(int(p.raw())), _pid_of(final)
        return {"decoded": [bool(p == back), bool(back == p), bool(p != back)], "final": [bool(p == ref), bool(ref == p), bool(p != ref)]}
    return [("raw", lambda p: int(p.raw())), ("fields", _pid_fields), ("eq", v_eq),
            ("hash", lambda p: _hash_view(p, lambda: PacketId(p.ptype, p.sec_header_flag, p.apid))),
            ("in_header", lambda p: hx(SpacePacketHeader.from_composite_fields(p, PacketSeqCtrl(SequenceFlags(2), 0x1234), 7, 5).pack()))]


def _psc_views(final):
    def v_eq(p):
        back, ref = PacketSeqCtrl.from_raw(int(p.raw())), _psc_of(final)
        return {"decoded": [bool(p == back), bool(back == p), bool(p != back)], "final": [bool(p == ref), bool(ref == p), bool(p != ref)]}
    return [("raw", lambda p: int(p.raw())), ("fields", _psc_fields), ("eq", v_eq),
            ("hash", lambda p: _hash_view(p, lambda: PacketSeqCtrl(p.seq_flags, p.seq_count))),
            ("in_header", lambda p: hx(SpacePacketHeader.from_composite_fields(PacketId(PacketType.TC, True, 0x2AA), p, 7, 5).pack()))]


_VERSION_SETTABLE = None


def _version_settable() -> bool:
    """the version bits of a header have no setter in the code as it is; a history that needs one starts with the final version"""
    global _VERSION_SETTABLE
    if _VERSION_SETTABLE is None:
        h = SpacePacketHeader(PacketType.TM, 1, 1, 1, ccsds_version=2)
        _VERSION_SETTABLE = core.tolerant_set(h, "ccsds_version", 5) and int(h.ccsds_version) == 5
    return _VERSION_SETTABLE


def _hdr_mutate(h: SpacePacketHeader, old, new, path):
    """old -> new: the steps of `path` in order (see HDR_STEPS), then whatever still differs through the header's own attributes"""
    done = set()

    def header_attr(k):
        setattr(h, _HDR_ATTR[k], _CONV[k](new[k]))
        done.add(k)
    for step in path:
        keys = HDR_STEPS[step]
        if step in ("packet_id", "packet_seq_control"):
            # the part as a whole is replaced, where the header takes that; otherwise its fields go through the header's setters
            if core.tolerant_set(h, step, _pid_of(new) if step == "packet_id" else _psc_of(new)):
                done.update(keys)
            else:
                for k in keys:
                    header_attr(k)
        elif "." in step:
            part = h.packet_id if step.startswith("pid.") else h.packet_seq_control
            k = keys[0]
            if core.tolerant_set(part, _PART_ATTR[k], _CONV[k](new[k])):
                done.add(k)
            else:
                header_attr(k)
        elif step == "ccsds_version":
            if core.tolerant_set(h, "ccsds_version", int(new["version"])):
                done.add("version")
        else:
            header_attr(keys[0])
    for k in HDR_KEYS:
        if k not in done and old[k] != new[k]:
            header_attr(k)


def _hdr_after_history(a) -> SpacePacketHeader:
    h = a["hist"]
    old = {k: h["from"][k] for k in HDR_KEYS}
    if not _version_settable():
        old["version"] = a["version"]
    src = h.get("source", "ctor")

    def make():
        if src == "unpack":
            return SpacePacketHeader.unpack(_spec_words(old) + b"\x99")
        if src == "composite":
            return SpacePacketHeader.from_composite_fields(_pid_of(old), _psc_of(old), old["dlen"], old["version"])
        return _hdr(old)
    got = {}
    err = core.read_mutate_read(make, _hdr_views(a), lambda x: _hdr_mutate(x, old, a, h.get("path") or []), lambda: _hdr(a),
                                f"SpacePacketHeader ({src} with {old}, then {h.get('path')})", first=h.get("read"), after=h.get("after"),
                                out=got)
    if err:
        raise SelfCheckFailure(err)
    return got["obj"]


# ---- the last clause of the property on a header that REACHED out-of-range values (key "hist" with "refused": true; the case's
#      APID / sequence count / data length lie outside their ranges, the model refuses them): the header is obtained with in-range
#      values, looked at, then given the case's values through the same steps as above. "Refused with ValueError instead of being
#      encoded": EITHER the assignment itself raises a ValueError (then the header still shows what it showed before that
#      assignment) OR pack() of the header raises a ValueError - it never returns octets and never raises anything else; the same
#      for what packs a header: a generic SpacePacket around it, a PusTc / PusTm given the value through tc.apid / tc.seq_count /
#      tm.apid / the setters of its header. What raw() of a part shows that holds such a value is not claimed ----
_RANGE = {"apid": 2047, "count": 16383, "dlen": 65535}


class _Refused(Exception):
    def __init__(self, key, error, cur):
        super().__init__(str(error))
        self.key, self.error, self.cur = key, error, cur


def _is_value_error(e: BaseException) -> bool:
    return "value" in core.exc_categories(e)


def _must_refuse(pack, what: str, holds: str):
    """`pack()` raises a ValueError-family exception (returned to the caller); octets or another exception are findings"""
    try:
        raw = pack()
    except (SelfCheckFailure, core.InfraError):
        raise
    except Exception as e:  # noqa
        if _is_value_error(e):
            return e
        raise SelfCheckFailure(f"{what} of a header that holds {holds} raises {type(e).__name__} ({str(e)[:80]}) - the property names "
                               f"ValueError for a value outside its range")
    raise SelfCheckFailure(f"{what} of a header that holds {holds} returns the octets {bytes(raw).hex()[:60]} - a value outside its range is "
                           f"refused with ValueError instead of being encoded")


def _hdr_mutate_refused(h: SpacePacketHeader, old, new, path):
    """like _hdr_mutate, assignment by assignment; a ValueError of an assignment ends the history (_Refused) - `cur` are the
    values the header holds at that point"""
    cur = dict(old)

    def assign(target, attr, k):
        try:
            setattr(target, attr, _CONV[k](new[k]))
        except (AttributeError, TypeError):
            return False
        except Exception as e:  # noqa
            if _is_value_error(e):
                raise _Refused(k, e, dict(cur))
            raise
        cur[k] = new[k]
        return True

    def header_attr(k):
        if not assign(h, _HDR_ATTR[k], k) and k != "version":
            raise AttributeError(f"SpacePacketHeader.{_HDR_ATTR[k]} cannot be assigned")
    for step in path:
        keys = HDR_STEPS[step]
        if step in ("packet_id", "packet_seq_control"):
            # a part built with the values that CAN be built (an out-of-range one keeps what the header holds), then the rest
            ok = lambda k, v: k not in _RANGE or 0 <= v <= _RANGE[k]      # noqa: E731
            safe = {k: (new[k] if ok(k, new[k]) else cur[k] if ok(k, cur[k]) else old[k]) for k in ("ptype", "shf", "apid", "flags", "count")}
            if core.tolerant_set(h, step, _pid_of(safe) if step == "packet_id" else _psc_of(safe)):
                for k in keys:
                    cur[k] = safe[k]
                part = h.packet_id if step == "packet_id" else h.packet_seq_control
                for k in keys:
                    if cur[k] != new[k] and not assign(part, _PART_ATTR[k], k):
                        header_attr(k)
            else:
                for k in keys:
                    header_attr(k)
        elif "." in step:
            k = keys[0]
            if not assign(h.packet_id if step.startswith("pid.") else h.packet_seq_control, _PART_ATTR[k], k):
                header_attr(k)
        else:
            header_attr(keys[0])
    for k in HDR_KEYS:
        if cur[k] != new[k]:
            header_attr(k)
    return cur


def _hdr_refused_history(a):
    """returns the ValueError with which the implementation refuses (the op raises it: compared with the model's refusal)"""
    h = a["hist"]
    old = {k: h["from"][k] for k in HDR_KEYS}
    if not _version_settable():
        old["version"] = a["version"]
    src = h.get("source", "ctor")
    bad = {k: a[k] for k in _RANGE if not 0 <= a[k] <= _RANGE[k]}
    holds = ", ".join(f"{_HDR_ATTR[k]} = {v}" for k, v in bad.items()) + f" (given through {h.get('path')} after {src} with {old})"
    if src == "unpack":
        obj = SpacePacketHeader.unpack(_spec_words(old) + b"\x99")
    elif src == "composite":
        obj = SpacePacketHeader.from_composite_fields(_pid_of(old), _psc_of(old), old["dlen"], old["version"])
    else:
        obj = _hdr(old)
    core.read_views(obj, _hdr_views(old), h.get("read"))
    try:
        _hdr_mutate_refused(obj, old, a, h.get("path") or [])
    except _Refused as r:
        # refused at the assignment: the header is what it was before that assignment (the values assigned so far), it packs,
        # and what it packs is the standard's encoding of those values
        now = _fields(obj)
        want = dict(r.cur, packet_len=r.cur["dlen"] + 7)
        raw = bytes(obj.pack())
        if now != want or raw != _spec_words(r.cur):
            raise SelfCheckFailure(f"the assignment of {_HDR_ATTR[r.key]} = {a[r.key]} was refused ({type(r.error).__name__}); the header held "
                                   f"{want} before it, now it shows {now} and packs {raw.hex()}")
        return r.error
    err = _must_refuse(obj.pack, "SpacePacketHeader.pack()", holds)
    _must_refuse(SpacePacket(obj, b"\x01\x02", b"\x03").pack, "SpacePacket(header, ...).pack()", holds)
    return err


def _carrier_refused(a):
    """key "carrier" of a refusal history: "tc" / "tm" - a PUS telecommand / telemetry packet built with in-range values is given the
    out-of-range APID / sequence count through its own setters (tc.apid, tc.seq_count, tm.apid) or the setters of its header:
    refused at the assignment, or at pack()"""
    from spacepackets.ecss.tc import PusTc
    from spacepackets.ecss.tm import PusTm
    h = a["hist"]
    old = h["from"]
    if h["carrier"] == "tc":
        pkt = PusTc(service=17, subservice=1, apid=old["apid"], seq_count=old["count"], app_data=b"\x01\x02")
    else:
        pkt = PusTm(service=17, subservice=2, apid=old["apid"], seq_count=old["count"], timestamp=bytes(7), source_data=b"\x03")
    if h.get("read") is None or h.get("read"):
        bytes(pkt.pack())
    bad = {k: a[k] for k in ("apid", "count") if not 0 <= a[k] <= _RANGE[k]}
    names = {"apid": "apid", "count": "seq_count"}
    for k in ("apid", "count"):
        if old[k] == a[k]:
            continue
        target = pkt if (h.get("via") == "packet" and core._class_data_names(type(pkt))[2].count(names[k])) else pkt.sp_header
        try:
            setattr(target, names[k], a[k])
        except Exception as e:  # noqa
            if _is_value_error(e):
                return e
            raise
    what = "PusTc" if h["carrier"] == "tc" else "PusTm"
    return _must_refuse(pkt.pack, f"{what}.pack()", ", ".join(f"{names[k]} = {v}" for k, v in bad.items())
                        + f" (assigned through the setters of the {'packet' if h.get('via') == 'packet' else 'header of the packet'})")


def _part_after_history(a, kind: str):
    """kind "pid" / "psc": the part obtained with the old values from `source` - "ctor", "from_raw", "copy" (copy.copy of one whose
    raw() was read), "header" (handed out by a header built with the old values) - and changed through its own attributes
    (`path` = their order) or, via "header", through the setters of the header that handed it out"""
    import copy
    h = a["hist"]
    keys = ["ptype", "shf", "apid"] if kind == "pid" else ["flags", "count"]
    old = {k: h["from"][k] for k in keys}
    of, views = (_pid_of, _pid_views) if kind == "pid" else (_psc_of, _psc_views)
    src, via = h.get("source", "ctor"), h.get("via", "attr")
    keep = {}

    def make():
        if src == "from_raw":
            return PacketId.from_raw(int((old["ptype"] << 12) | (old["shf"] << 11) | old["apid"])) if kind == "pid" \
                else PacketSeqCtrl.from_raw(int((old["flags"] << 14) | old["count"]))
        if src == "copy":
            first = of(old)
            first.raw()
            return copy.copy(first)
        if src == "header":
            full = {"version": 0, "ptype": 0, "shf": 0, "apid": 0x155, "flags": 1, "count": 0x1001, "dlen": 3}
            full.update(old)
            keep["hdr"] = _hdr(full)
            return keep["hdr"].packet_id if kind == "pid" else keep["hdr"].packet_seq_control
        return of(old)

    def mutate(p):
        order = [k for k in (h.get("path") or []) if k in keys] + [k for k in keys if k not in (h.get("path") or [])]
        for k in order:
            if old[k] == a[k] and k not in (h.get("path") or []):
                continue
            if via == "header" and "hdr" in keep:
                setattr(keep["hdr"], _HDR_ATTR[k], _CONV[k](a[k]))
            else:
                _assign(p, _PART_ATTR[k], _CONV[k](a[k]))
        if "hdr" in keep and (keep["hdr"].packet_id if kind == "pid" else keep["hdr"].packet_seq_control) is not p:
            raise _Immutable("the header replaced the part it had handed out")
    got = {}
    try:
        err = core.read_mutate_read(make, views(a), mutate, lambda: of(a),
                                    f"{'PacketId' if kind == 'pid' else 'PacketSeqCtrl'} ({src} with {old}, changed through "
                                    f"{'the setters of the header it belongs to' if via == 'header' else 'its attributes'})",
                                    first=h.get("read"), after=h.get("after"), out=got)
    except _Immutable:
        return of(a)
    if err:
        raise SelfCheckFailure(err)
    return got["obj"]


def op_sph_new(a):
    _factory_probe(a)
    h = _hdr_after_history(a) if a.get("hist") else _hdr(a)
    f = _fields(h)
    # composite views agree with the flat ones
    if h.packet_id.raw() != (f["ptype"] << 12 | f["shf"] << 11 | f["apid"]):
        raise SelfCheckFailure("packet_id.raw() disagrees with the header fields")
    if h.packet_seq_control.raw() != (f["flags"] << 14 | f["count"]):
        raise SelfCheckFailure("packet_seq_control.raw() disagrees with the header fields")
    h2 = SpacePacketHeader.from_composite_fields(h.packet_id, h.packet_seq_control, h.data_len, h.ccsds_version)
    if _fields(h2) != f or not (h2 == h):
        raise SelfCheckFailure("from_composite_fields does not rebuild an equal header")
    return f


def op_sph_pack(a):
    hist = a.get("hist") or {}
    if hist.get("refused") and any(not 0 <= a[k] <= _RANGE[k] for k in _RANGE):
        # (a refusal history; with in-range values - a minimiser lowering them - it is an ordinary history)
        raise (_carrier_refused(a) if hist.get("carrier") else _hdr_refused_history(a))
    h = _hdr_after_history(a) if hist and not hist.get("carrier") else _hdr(a)
    # (packs twice, the caller modifying the first returned buffer in between)
    raw = core.pack_stable(h, "SpacePacketHeader.pack()")
    h2 = SpacePacketHeader.unpack(raw)
    if not (h2 == h) or core.ISOLATION.check("SpacePacketHeader", h2, _fields) != _fields(h):
        raise SelfCheckFailure("unpack(pack(h)) is not equal to h")
    if a.get("mut"):
        _redecode_probe(raw, a["mut"])
        if _fields(SpacePacketHeader.unpack(raw)) != _fields(h):
            raise SelfCheckFailure("unpack(pack(h)) no longer shows the fields of h after a header decoded earlier was modified")
    return {"raw": hx(raw)}


def op_sph_unpack(a):
    raw = unhx(a["raw"])
    if a.get("mut") and len(raw) >= 6:
        _redecode_probe(raw, a["mut"])
    h = SpacePacketHeader.unpack(raw)
    # headers decoded by earlier calls must still show what they showed then
    f = _ISO_SWEEP.check("SpacePacketHeader", h, _fields)
    if core.pack_stable(h, "SpacePacketHeader.pack() of a decoded header") != raw[:6]:
        raise SelfCheckFailure("pack(unpack(b)) != b[:6]")
    return f


def op_pid_raw(a):
    if a.get("hist"):
        return {"raw": int(_part_after_history(a, "pid").raw())}
    return {"raw": int(PacketId(PacketType(a["ptype"]), bool(a["shf"]), a["apid"]).raw())}


def op_pid_from_raw(a):
    _factory_probe(a)
    p = PacketId.from_raw(a["raw"])
    return {"ptype": int(p.ptype), "shf": int(bool(p.sec_header_flag)), "apid": int(p.apid)}


def op_psc_raw(a):
    if a.get("hist"):
        return {"raw": int(_part_after_history(a, "psc").raw())}
    return {"raw": int(PacketSeqCtrl(SequenceFlags(a["flags"]), a["count"]).raw())}


def op_psc_from_raw(a):
    _factory_probe(a)
    p = PacketSeqCtrl.from_raw(a["raw"])
    return {"flags": int(p.seq_flags), "count": int(p.seq_count)}


def op_sp_pack(a):
    h = _hdr(a)
    sec = None if a["sec"] is None else unhx(a["sec"])
    user = None if a["user"] is None else unhx(a["user"])
    return {"raw": hx(core.pack_stable(SpacePacket(h, sec, user), "SpacePacket.pack()"))}


def op_apid_from_raw(a):
    return {"apid": int(sp.get_apid_from_raw_space_packet(unhx(a["raw"])))}


def op_id_bytes(a):
    b0, b1 = sp.get_space_packet_id_bytes(PacketType(a["ptype"]), bool(a["shf"]), a["apid"], a["version"])
    return {"b0": int(b0), "b1": int(b1)}


def op_total_len(a):
    return {"len": int(sp.get_total_space_packet_len_from_len_field(a["len_field"]))}


OPS = {
    "sph_new": op_sph_new, "sph_pack": op_sph_pack, "sph_unpack": op_sph_unpack, "pid_raw": op_pid_raw,
    "pid_from_raw": op_pid_from_raw, "psc_raw": op_psc_raw, "psc_from_raw": op_psc_from_raw,
    "sp_pack": op_sp_pack, "apid_from_raw": op_apid_from_raw, "id_bytes": op_id_bytes, "total_len": op_total_len,
}


def rand_hdr(rng: random.Random) -> Dict[str, Any]:
    return {"version": rng.randint(0, 7), "ptype": rng.randint(0, 1), "shf": rng.randint(0, 1),
            "apid": rng.randint(0, 2047), "flags": rng.randint(0, 3), "count": rng.randint(0, 16383),
            "dlen": rng.randint(0, 65535)}


class C01(Prop):
    id = "C01"
    title = "Space Packet primary header"
    lean_modules = ["SpVerif.Props.C01"]
    exhaustive_note = ("all 65536 values of each of the three header words through unpack (other octets random); "
                       "all 8192 packet-id words and all 65536 sequence-control words through from_raw/raw")
    trusted_base = ["arithmetic normal form of the model vs shifts/masks of the code: tied by the exhaustive 16-bit word sweeps"]

    def impl_ops(self):
        return OPS

    def table_sync(self):
        d = []
        exp = {"CCSDS_HEADER_LEN": 6, "SPACE_PACKET_HEADER_SIZE": 6, "SEQ_FLAG_MASK": 0xC000, "APID_MASK": 0x7FF,
               "PACKET_ID_MASK": 0x1FFF, "MAX_SEQ_COUNT": 16383, "MAX_APID": 2047}
        for k, v in exp.items():
            if getattr(sp, k, None) != v:
                d.append(f"spacepacket.{k}={getattr(sp, k, None)!r} model={v}")
        if [int(x) for x in PacketType] != [0, 1]:
            d.append("PacketType members")
        if [int(x) for x in SequenceFlags] != [0, 1, 2, 3]:
            d.append("SequenceFlags members")
        return d

    def nontrivial(self, c: Case) -> bool:
        o = c.op
        if "raw" in o and isinstance(o["raw"], str):
            return o["raw"].strip("0") != ""
        return any(v not in (0, None, False, "") for k, v in o.items() if k != "op")

    def cases(self, rng: random.Random, tier: str) -> Iterator[Case]:
        thorough = tier == "thorough"
        # --- exhaustive word sweeps through the decoder ---
        base = bytearray(rbytes(rng, 6))
        for word in range(3):
            for w in range(65536):
                b = bytearray(base)
                b[2 * word] = w >> 8
                b[2 * word + 1] = w & 0xFF
                sfx = rbytes(rng, w % 3)
                yield Case({"op": "sph_unpack", "raw": hx(bytes(b) + sfx)}, "valid", tag=f"word{word}-sweep")
        for w in range(8192):
            yield Case({"op": "pid_from_raw", "raw": w}, "valid", tag="pid-sweep")
        for w in range(65536):
            yield Case({"op": "psc_from_raw", "raw": w}, "valid", tag="psc-sweep")
        for w in [65536, 65537, 1 << 16 | 0x3FFF, 1 << 20, (1 << 32) + 5]:
            yield Case({"op": "psc_from_raw", "raw": w}, "invalid", tag="psc-beyond-16-bit")
            yield Case({"op": "pid_from_raw", "raw": w}, "valid", tag="pid-beyond-13-bit")
        # --- boundary pools through constructor and pack ---
        apids, counts, dlens = pool(2047, rng), pool(16383, rng), pool(65535, rng)
        for v in range(8):
            for t in (0, 1):
                for s in (0, 1):
                    for f in range(4):
                        a, c, d = rng.choice(apids), rng.choice(counts), rng.choice(dlens)
                        h = {"version": v, "ptype": t, "shf": s, "apid": a, "flags": f, "count": c, "dlen": d}
                        yield Case({"op": "sph_pack", **h}, "valid", tag="flags-all")
                        yield Case({"op": "sph_new", **h}, "valid", tag="flags-all")
        for a in apids:
            for c in counts:
                h = rand_hdr(rng)
                h.update(apid=a, count=c, dlen=rng.choice(dlens))
                yield Case({"op": "sph_pack", **h}, "valid", tag="boundary")
                yield Case({"op": "pid_raw", "ptype": h["ptype"], "shf": h["shf"], "apid": a}, "valid", tag="boundary")
                yield Case({"op": "psc_raw", "flags": h["flags"], "count": c}, "valid", tag="boundary")
                yield Case({"op": "id_bytes", "version": h["version"], "ptype": h["ptype"], "shf": h["shf"], "apid": a}, "valid", tag="boundary")
        for d in dlens:
            h = rand_hdr(rng)
            h["dlen"] = d
            yield Case({"op": "sph_pack", **h}, "valid", tag="boundary")
            yield Case({"op": "total_len", "len_field": d}, "valid", tag="boundary")
        # --- out-of-range values are refused with ValueError ---
        for fld, mx in (("apid", 2047), ("count", 16383), ("dlen", 65535)):
            for bad in out_pool(mx, rng):
                h = rand_hdr(rng)
                h[fld] = bad
                yield Case({"op": "sph_new", **h}, "invalid", errclass=True, tag=f"bad-{fld}")
                yield Case({"op": "sph_pack", **h}, "invalid", errclass=True, tag=f"bad-{fld}")
                if fld == "apid":
                    yield Case({"op": "pid_raw", "ptype": h["ptype"], "shf": h["shf"], "apid": bad}, "invalid", errclass=True, tag="bad-apid")
                if fld == "count":
                    yield Case({"op": "psc_raw", "flags": h["flags"], "count": bad}, "invalid", errclass=True, tag="bad-count")
        # --- random full tuples: pack, unpack(pack ‖ suffix), generic packet ---
        n = 200000 if thorough else 20000
        for i in range(n):
            h = rand_hdr(rng)
            yield Case({"op": "sph_pack", **h}, "valid", tag="random")
            if i % 4 == 0:
                raw = bytes(_hdr(h).pack()) if i % 8 else rbytes(rng, 6)
                yield Case({"op": "sph_unpack", "raw": hx(raw + rbytes(rng, rng.choice([0, 0, 1, 2, 7, 30])))}, "valid", tag="random+suffix")
            if i % 10 == 0:
                sec = rbytes(rng, rng.randint(0, 12))
                user = rbytes(rng, rng.randint(0, 40))
                mode = rng.randint(0, 3)
                secv = hx(sec) if mode & 1 else None
                userv = hx(user) if mode & 2 else None
                ok = (h["shf"] == 1 and secv is not None) or (h["shf"] == 0 and userv is not None)
                yield Case({"op": "sp_pack", **h, "sec": secv, "user": userv}, "valid" if ok else "invalid",
                           errclass=not ok, tag="generic-packet")
        # --- back-to-back decodes of headers that differ in every bit (an object decoded earlier must not follow) ---
        for _ in range(2000 if thorough else 200):
            raw = rbytes(rng, 6)
            yield Case({"op": "sph_unpack", "raw": hx(raw)}, "valid", tag="complement-pair")
            yield Case({"op": "sph_unpack", "raw": hx(bytes(x ^ 0xFF for x in raw) + rbytes(rng, 2))}, "valid", tag="complement-pair")
            yield Case({"op": "sph_pack", **rand_hdr(rng)}, "valid", tag="complement-pair")
        # --- the application modifies a decoded header through its setters (each setter alone, all together, random
        #     subsets), then decodes the same octets / octets sharing a word with them (key "mut", see _mutate) ---
        masks = [1, 2, 4, 8, 16, 32, 64, _MUT_ALL]
        for i in range(20000 if thorough else 2500):
            m = masks[i % 8] if i % 2 == 0 else rng.randint(1, _MUT_ALL)
            if i % 3 == 0:
                raw = bytes(_hdr(rand_hdr(rng)).pack())
            else:
                raw = rbytes(rng, 6)
            yield Case({"op": "sph_unpack", "raw": hx(raw + rbytes(rng, rng.choice([0, 0, 1, 4]))), "mut": m}, "valid",
                       tag="setters-then-decode")
            if i % 5 == 0:
                yield Case({"op": "sph_pack", **rand_hdr(rng), "mut": m}, "valid", tag="setters-then-decode")
        # --- short input ---
        for ln in range(0, 6):
            for _ in range(20):
                raw = rbytes(rng, ln)
                yield Case({"op": "sph_unpack", "raw": hx(raw)}, "invalid", errclass=True, tag="short")
                yield Case({"op": "apid_from_raw", "raw": hx(raw)}, "invalid", errclass=True, tag="short")
        for _ in range(2000):
            yield Case({"op": "apid_from_raw", "raw": hx(rbytes(rng, rng.randint(6, 12)))}, "valid", tag="random")
        # --- results of the factories are objects of their own (key "fac", see _factory_probe) ---
        import props.c11 as c11
        for _ in range(40 if thorough else 6):
            for name in C01_FACTORIES:
                p = c11.factory_params(rng)
                fac = {"name": name, "p": p}
                if name.startswith("PacketId"):
                    yield Case({"op": "pid_from_raw", "raw": 0 if "empty" in name else p["raw16"] & 0x1FFF, "fac": fac}, "valid",
                               tag="factory-independence")
                elif name.startswith("PacketSeqCtrl"):
                    yield Case({"op": "psc_from_raw", "raw": 0 if "empty" in name else p["raw16"], "fac": fac}, "valid",
                               tag="factory-independence")
                else:
                    yield Case({"op": "sph_new", **rand_hdr(rng), "fac": fac}, "valid", tag="factory-independence")
        # --- objects that reached the case's values the long way (key "hist", see _hdr_after_history / _part_after_history):
        #     obtained with other values, some or all derived views read, changed through every public attribute / setter (each
        #     field alone, all, some; in every order), all views read again in a shuffled order ---
        yield from self._histories(rng, thorough)

    def _histories(self, rng: random.Random, thorough: bool) -> Iterator[Case]:
        tops = {"version": 7, "ptype": 1, "shf": 1, "apid": 2047, "flags": 3, "count": 16383, "dlen": 65535}

        def other(k, v):
            return rng.choice([v ^ tops[k], (v + 1) % (tops[k] + 1), (v + rng.randint(1, tops[k])) % (tops[k] + 1)])

        def old_for(a, keys, what):
            old = {k: a[k] for k in keys}
            if what in keys:
                old[what] = other(what, a[what])
            elif what == "all":
                for k in keys:
                    old[k] = other(k, a[k])
            else:
                for k in rng.sample(keys, max(1, len(keys) // 2)):
                    old[k] = other(k, a[k])
            return old
        # steps that assign a field: the header's attribute, the attribute of the part it hands out, the part as a whole
        ways = {"version": ["ccsds_version"], "ptype": ["packet_type", "pid.ptype", "packet_id"],
                "shf": ["sec_header_flag", "pid.sec_header_flag", "packet_id"], "apid": ["apid", "pid.apid", "packet_id"],
                "flags": ["seq_flags", "psc.seq_flags", "packet_seq_control"], "count": ["seq_count", "psc.seq_count", "packet_seq_control"],
                "dlen": ["data_len"]}
        hdr_reads = [None, ["pack"], ["pid_raw"], ["eq"], ["psc_raw", "len"], ["hash", "generic"], ["composite", "fields"], []]
        k = 0
        for rep in range(12 if thorough else 2):
            for src in ("ctor", "unpack", "composite"):
                for rd in hdr_reads:
                    for what in HDR_KEYS + ["all", "some"]:
                        k += 1
                        a = rand_hdr(rng)
                        old = old_for(a, HDR_KEYS, what)
                        changed = [x for x in HDR_KEYS if old[x] != a[x]]
                        rng.shuffle(changed)
                        path = []
                        for x in changed:
                            st = ways[x][k % len(ways[x])] if rep % 2 == 0 else rng.choice(ways[x])
                            if st not in path:
                                path.append(st)
                        if rng.random() < 0.2:
                            # a field that keeps its value is assigned as well
                            path.insert(rng.randint(0, len(path)), rng.choice(["apid", "sec_header_flag", "packet_type", "seq_count", "data_len"]))
                        after = list(HDR_VIEW_NAMES)
                        rng.shuffle(after)
                        hist = {"from": old, "source": src, "path": path, "read": rd, "after": after}
                        yield Case({"op": ("sph_pack", "sph_new")[k % 2], **a, "hist": hist}, "valid", tag="read-set-read")
        # --- the same histories with FINAL values outside their ranges (key "refused", see _hdr_refused_history): refused with
        #     ValueError at the assignment or by pack() - of the header, of a generic packet around it, of a PUS packet ---
        bad_values = {"apid": [2048, 0x805, 0x12345, -1], "count": [16384, 0x4007, -1], "dlen": [65536, 70000, -1]}
        for rep in range(6 if thorough else 1):
            for bk, vals in bad_values.items():
                for bv in vals + ([rng.choice(out_pool(tops[bk], rng))] if rep else []):
                    for way in ways[bk]:
                        for src in ("ctor", "unpack", "composite"):
                            for rd in (None, ["pack"], ["pid_raw", "psc_raw"], []):
                                for alone in (True, False):
                                    k += 1
                                    a = rand_hdr(rng)
                                    old = dict(a) if alone else old_for(a, HDR_KEYS, "some")
                                    old[bk] = a[bk]
                                    a[bk] = bv
                                    path = [way]
                                    for x in HDR_KEYS:
                                        if x != bk and old[x] != a[x]:
                                            path.insert(rng.randint(0, len(path)), rng.choice(ways[x]))
                                    if not alone and k % 5 == 0:
                                        # a second field out of range
                                        bk2 = rng.choice([x for x in bad_values if x != bk])
                                        old[bk2], a[bk2] = a[bk2] if 0 <= a[bk2] <= tops[bk2] else 1, rng.choice(bad_values[bk2])
                                        path.insert(rng.randint(0, len(path)), rng.choice(ways[bk2]))
                                    hist = {"from": old, "source": src, "path": path, "read": rd, "refused": True}
                                    yield Case({"op": "sph_pack", **a, "hist": hist}, "invalid", errclass=True, tag="read-set-refused")
            for carrier in ("tc", "tm"):
                for bk in ("apid", "count"):
                    for bv in bad_values[bk]:
                        for via in ("packet", "header"):
                            for rd in (None, []):
                                a = rand_hdr(rng)
                                a.update(version=0, ptype=1 if carrier == "tc" else 0, shf=1, flags=3)
                                old = dict(a)
                                a[bk] = bv
                                if rng.random() < 0.5:
                                    other_k = "count" if bk == "apid" else "apid"
                                    old[other_k] = other(other_k, a[other_k])
                                hist = {"from": old, "carrier": carrier, "via": via, "read": rd, "refused": True}
                                yield Case({"op": "sph_pack", **a, "hist": hist}, "invalid", errclass=True, tag="carrier-set-refused")
        part_reads = [None, ["raw"], ["eq"], ["hash"], ["in_header", "fields"], []]
        for rep in range(12 if thorough else 2):
            for kind, keys, names in (("pid", ["ptype", "shf", "apid"], PID_VIEW_NAMES), ("psc", ["flags", "count"], PSC_VIEW_NAMES)):
                for src in ("ctor", "from_raw", "copy", "header", "header"):
                    for rd in part_reads:
                        for what in keys + ["all", "some"]:
                            k += 1
                            a = {x: rng.choice([0, tops[x], rng.randint(0, tops[x]), rng.randint(0, tops[x])]) for x in keys}
                            old = old_for(a, keys, what)
                            path = [x for x in keys if old[x] != a[x]]
                            rng.shuffle(path)
                            after = list(names)
                            rng.shuffle(after)
                            hist = {"from": old, "source": src, "path": path, "read": rd, "after": after,
                                    "via": "header" if src == "header" and k % 2 else "attr"}
                            yield Case({"op": kind + "_raw", **a, "hist": hist}, "valid", tag="read-set-read")


PROP = C01()
