"""C11 — lengths track mutations, pack is repeatable, caller inputs are not modified

One op line = one initial object of a mutable packet class plus a whole sequence of documented
setter calls. After construction and after EVERY call the observer records: outcome of the call,
reported length (`packet_len` / `len()`), `pack()` octets, the length field read from those octets,
a second `pack()`, `==` against a deep copy taken before packing, and octets / `==` of a freshly
built object with the same final values. The same line goes through the Lean state machines of
`Model/Mutation.lean` (whose observations are what the C11 theorems prescribe).

Two further families use the same op lines: "same-id-other-width" (setter arguments that compare equal under `==` to the
value they replace but encode differently - entity IDs holding the same number in 1/2/4/8 octets) and "bystander" (case key
"twin", ignored by the model op: further objects of the class, built from the one PduConfig object the caller holds, exist
while the setters are called on the first object and must stay what they were - see `Bystanders`).

A third family, "factory" (keys ignored by the model ops): every classmethod / staticmethod / helper function of the package
that builds an object of a mutable class without being handed all of its state (table FACTORIES: `empty()`, `default()`,
`success_params()`, `success_pdu()`, `from_*`, `create_*_tm`, ...) is called several times, one result is modified through its
documented setters / public attributes / list methods, and the other results as well as the result of a later call must be
what they were (core.factory_independent; carried by c11_inputs lines with kind="factory"); and setter-sequence lines whose
object AND bystanders come from FinishedPdu.success_pdu / FinishedParams.success_params / .empty / FileDataParams.empty
(key "factory" of c11_fin / c11_fd lines), compared with the model built from the documented values of the factory.

A fourth family, "alias" (op heap_alias): the aliasing clauses are theorems over the object-graph model Model/Heap.lean
(Props/C11Heap.lean); the op compares the ALIAS GRAPH that model predicts for a scenario (setup + one library call: which of
the named public access paths denote the same object, which pre-existing objects the call writes) with `is` and deep value
snapshots on the real objects - see the section "heap_alias" below and DESIGN 13.10 for the comparison rule.

KINDS is a table: adding a kind = one `Kind` subclass + one generator entry (+ one `Kind` record in Ops/Mutation.lean).
"""
import copy
import datetime
import itertools
import json
import pathlib
import random
import warnings
import zlib
from typing import Any, Dict, Iterator, List, Optional

import core
from core import Case, Prop, SelfCheckFailure, exc_category, DOCUMENTED
from gen import hx, unhx, rbytes

from spacepackets.crc import CRC16_CCITT_FUNC
from spacepackets.ccsds.spacepacket import CCSDS_HEADER_LEN
from spacepackets.ecss.tc import PusTc, PusTcDataFieldHeader
from spacepackets.ecss.tm import PusTm, PusTmSecondaryHeader
from spacepackets.cfdp.conf import PduConfig
from spacepackets.cfdp.defs import (
    ConditionCode, DeliveryCode, FileStatus, LargeFileFlag, ChecksumType, CrcFlag, Direction,
    TransmissionMode, SegmentationControl,
)
from spacepackets.cfdp.lv import CfdpLv
from spacepackets.cfdp.tlv import (
    CfdpTlv, TlvType, EntityIdTlv, FileStoreResponseTlv, FilestoreActionCode, FilestoreResponseStatusCode,
)
from spacepackets.cfdp.pdu.file_directive import DirectiveType
from spacepackets.cfdp.pdu.ack import AckPdu, TransactionStatus
from spacepackets.cfdp.pdu.prompt import PromptPdu, ResponseRequired
from spacepackets.cfdp.pdu.keep_alive import KeepAlivePdu
from spacepackets.cfdp.pdu.nak import NakPdu
from spacepackets.cfdp.pdu.eof import EofPdu
from spacepackets.cfdp.pdu.finished import FinishedPdu, FinishedParams
from spacepackets.cfdp.pdu.metadata import MetadataPdu, MetadataParams
from spacepackets.cfdp.pdu.file_data import FileDataPdu, FileDataParams, SegmentMetadata, RecordContinuationState
from spacepackets.util import (
    UnsignedByteField, ByteFieldU8, ByteFieldU16, ByteFieldU32, ByteFieldU64, ByteFieldEmpty, ByteFieldGenerator,
)
from spacepackets.ccsds.spacepacket import PacketId, PacketSeqCtrl, PacketType, SequenceFlags, SpacePacketHeader
from spacepackets.ccsds.time import CdsShortTimestamp
from spacepackets.countdown import Countdown
from spacepackets.ecss.fields import PacketFieldEnum
from spacepackets.ecss.req_id import RequestId
import spacepackets.ecss.pus_1_verification as pus1
from spacepackets.ecss.pus_1_verification import Service1Tm, Subservice, FailureNotice
from spacepackets.cfdp.tlv.msg_to_user import DirectoryParams, ProxyPutResponseParams
from spacepackets.uslp.frame import TransferFrame, TransferFrameDataField, USLP_TFDF_MAX_SIZE
from spacepackets.uslp.header import PrimaryHeader, TruncatedPrimaryHeader

import props.c02 as c02
import props.c03 as c03
import props.c06_fixed as c06
import props.c06_var as c6v
import props.c07 as c07
import props.c17 as c17

U32 = (1 << 32) - 1


# --------------------------------------------------------------------------------------------
# encodings shared with Ops/Mutation.lean
# --------------------------------------------------------------------------------------------
def _data(v) -> bytes:
    """hex string or {"fill": b, "n": k}"""
    if isinstance(v, str):
        return unhx(v)
    return bytes([v["fill"]]) * v["n"]


def fill(n: int, b: int = 0) -> Dict[str, int]:
    return {"fill": b, "n": n}


def _rawj(b: bytes):
    if len(b) <= 2048:
        return hx(b)
    return {"len": len(b), "adler": int(zlib.adler32(b)), "head": hx(b[:64]), "tail": hx(b[len(b) - 64:])}


def _conf_of(h) -> PduConfig:
    """a new PduConfig with the values a PDU header shows (public attributes only)"""
    s, d, q = h.source_entity_id, h.dest_entity_id, h.transaction_seq_num
    return PduConfig(source_entity_id=UnsignedByteField(int(s.value), int(s.byte_len)),
                     dest_entity_id=UnsignedByteField(int(d.value), int(d.byte_len)),
                     transaction_seq_num=UnsignedByteField(int(q.value), int(q.byte_len)),
                     trans_mode=TransmissionMode(int(h.transmission_mode)), file_flag=LargeFileFlag(int(h.file_flag)),
                     crc_flag=CrcFlag(int(h.crc_flag)), direction=Direction(int(h.direction)),
                     seg_ctrl=SegmentationControl(int(h.seg_ctrl)))


def _hdr_extra(h) -> Dict[str, Any]:
    return {"dlen": int(h.pdu_data_field_len), "large": int(h.file_flag), "segmeta": int(h.segment_metadata_flag)}


def _cfdp_len_field(raw: bytes) -> int:
    return (raw[1] << 8) | raw[2]


# --------------------------------------------------------------------------------------------
# the table of kinds
# --------------------------------------------------------------------------------------------
def _factory_args(a, table):
    """a line with the key "factory" must carry the values the factory is documented to produce (a minimiser must not
    drift to other values: reported as a failure of its own kind, like ConstructorRefused)"""
    want = table.get(a["factory"])
    if want is None or any(a.get(k) != v for k, v in want.items()) or a.get("via_unpack"):
        raise FactoryLineMalformed(f"line with factory={a['factory']!r} does not carry the documented values {want!r}")


class FactoryLineMalformed(Exception):
    pass


class Kind:
    op = ""
    modelled = True          # a Lean state machine exists (else: implementation-side self-checks only)

    shares_conf = False      # the constructor takes a caller-supplied PduConfig (CFDP classes)

    def ctor(self, a, conf=None):
        """the object straight from the constructor (`conf`: the caller's PduConfig object to hand in, CFDP classes only)"""
        raise NotImplementedError

    def decoded(self, a, obj):
        """the object a decoder returns for what `obj` packs"""
        return obj

    def build(self, a, conf=None):
        p = self.ctor(a, conf)
        return self.decoded(a, p) if a.get("via_unpack") else p

    def apply(self, obj, s): raise NotImplementedError
    def reported(self, obj) -> int: return int(obj.packet_len)
    def packer(self, obj): return obj.pack                     # the encoder call itself (returns what the library returns)
    def pack(self, obj) -> bytes: return bytes(self.packer(obj)())
    def len_field(self, obj, raw: bytes) -> Optional[int]: raise NotImplementedError
    def expected_len_field(self, obj, raw: bytes) -> Optional[int]: raise NotImplementedError
    def extra(self, obj) -> Dict[str, Any]: return {}
    def fresh(self, obj): raise NotImplementedError
    def equal(self, x, y) -> bool: return bool(x == y) and bool(y == x)


class TcKind(Kind):
    op = "c11_tc"

    def ctor(self, a, conf=None): return c02._tc(a)
    def decoded(self, a, t): return PusTc.unpack(bytes(t.pack()))

    def apply(self, t, s): t.app_data = _data(s["data"])
    def len_field(self, t, raw): return (raw[4] << 8) | raw[5]
    def expected_len_field(self, t, raw): return len(raw) - CCSDS_HEADER_LEN - 1
    def extra(self, t): return {"dlen": int(t.sp_header.data_len), "data_len": len(t.app_data)}

    def fresh(self, t):
        return PusTc(service=t.service, subservice=t.subservice, apid=t.apid, app_data=bytes(t.app_data),
                     seq_count=t.seq_count, source_id=t.source_id, ack_flags=t.pus_tc_sec_header.ack_flags)


class TmKind(Kind):
    op = "c11_tm"

    def ctor(self, a, conf=None): return c03._tm(a)
    def decoded(self, a, t): return PusTm.unpack(bytes(t.pack()), len(unhx(a["timestamp"])))

    def apply(self, t, s): t.tm_data = _data(s["data"])
    def len_field(self, t, raw): return (raw[4] << 8) | raw[5]
    def expected_len_field(self, t, raw): return len(raw) - CCSDS_HEADER_LEN - 1
    def extra(self, t): return {"dlen": int(t.sp_header.data_len), "data_len": len(t.tm_data)}

    def fresh(self, t):
        sec = t.pus_tm_sec_header
        return PusTm(service=t.service, subservice=t.subservice, timestamp=bytes(t.timestamp),
                     source_data=bytes(t.tm_data), apid=t.apid, seq_count=t.seq_count,
                     message_counter=sec.message_counter, space_time_ref=sec.spacecraft_time_ref,
                     destination_id=sec.dest_id, packet_version=t.ccsds_version)


class CfdpKind(Kind):
    shares_conf = True
    cls: Any = None

    def decoded(self, a, p): return self.cls.unpack(bytes(p.pack()))
    def len_field(self, p, raw): return _cfdp_len_field(raw)
    def expected_len_field(self, p, raw): return len(raw) - int(p.pdu_header.header_len)
    def extra(self, p): return _hdr_extra(p.pdu_header)


def _seglist(v):
    if v is None:
        return None
    if isinstance(v, dict):
        return [(int(v["fill"][0]), int(v["fill"][1]))] * v["n"]
    return [(int(s[0]), int(s[1])) for s in v]


class NakKind(CfdpKind):
    op = "c11_nak"

    cls = NakPdu

    def ctor(self, a, conf=None):
        return NakPdu(pdu_conf=c06._conf(a) if conf is None else conf, start_of_scope=a["start"], end_of_scope=a["end"],
                      segment_requests=_seglist(a["segs"]))

    def apply(self, p, s):
        if s["set"] == "segs":
            p.segment_requests = _seglist(s["segs"])
        else:
            p.file_flag = LargeFileFlag(s["large"])

    def extra(self, p):
        e = _hdr_extra(p.pdu_header)
        e["nsegs"] = len(p.segment_requests)
        return e

    def fresh(self, p):
        return NakPdu(_conf_of(p.pdu_header), p.start_of_scope, p.end_of_scope, list(p.segment_requests))


class KaKind(CfdpKind):
    op = "c11_ka"

    cls = KeepAlivePdu

    def ctor(self, a, conf=None):
        return KeepAlivePdu(pdu_conf=c06._conf(a) if conf is None else conf, progress=a["progress"])

    def apply(self, p, s): p.file_flag = LargeFileFlag(s["large"])
    def fresh(self, p): return KeepAlivePdu(_conf_of(p.pdu_header), p.progress)


def _meta(s) -> Optional[SegmentMetadata]:
    if s.get("meta") is None:
        return None
    return SegmentMetadata(record_cont_state=RecordContinuationState(s["state"]), metadata=_data(s["meta"]))


class FdKind(CfdpKind):
    op = "c11_fd"

    cls = FileDataPdu

    def ctor(self, a, conf=None):
        if a.get("factory"):
            # key "factory" (not read by the model op): the parameter object comes from the library's factory; the line
            # carries the documented values of that factory, which is what the model is built from
            _factory_args(a, {"empty_params": {"data": "", "offset": 0, "meta": None}})
            return FileDataPdu(pdu_conf=c06._conf(a) if conf is None else conf, params=FileDataParams.empty())
        return FileDataPdu(pdu_conf=c06._conf(a) if conf is None else conf,
                           params=FileDataParams(file_data=_data(a["data"]), offset=a["offset"], segment_metadata=_meta(a)))

    def apply(self, p, s):
        if s["set"] == "data":
            p.file_data = _data(s["data"])
        else:
            p.segment_metadata = _meta(s)

    def extra(self, p):
        e = _hdr_extra(p.pdu_header)
        sm = p.segment_metadata
        e.update(data_len=len(p.file_data), meta_len=None if sm is None else len(sm.metadata))
        return e

    def fresh(self, p):
        sm = p.segment_metadata
        return FileDataPdu(_conf_of(p.pdu_header), FileDataParams(
            bytes(p.file_data), int(p.offset),
            None if sm is None else SegmentMetadata(sm.record_cont_state, bytes(sm.metadata))))


class FrameKind(Kind):
    op = "c11_frame"

    def ctor(self, a, conf=None): return c17._frame(a)

    def apply(self, f, s):
        if s["set"] == "tfdz":
            f.tfdf.tfdz = _data(s["tfdz"])
        else:
            f.set_frame_len_in_header()

    def reported(self, f): return int(f.len())
    def packer(self, f): return lambda: f.pack(truncated=f.header.truncated())

    def len_field(self, f, raw):
        return None if f.header.truncated() else (raw[4] << 8) | raw[5]

    def expected_len_field(self, f, raw):
        # the field holds what the header object holds; `len_set` says whether that is the total length - 1
        return None if f.header.truncated() else int(f.header.frame_len) % 65536

    def extra(self, f):
        if f.header.truncated():
            return {"tfdf_len": int(f.tfdf.len()), "frame_len": None, "len_set": None}
        return {"tfdf_len": int(f.tfdf.len()), "frame_len": int(f.header.frame_len),
                "len_set": int(f.header.frame_len) + 1 == int(f.len())}

    def fresh(self, f):
        t = f.tfdf
        return TransferFrame(header=copy.deepcopy(f.header),
                             tfdf=TransferFrameDataField(t.tfdz_contr_rules, t.uslp_ident, bytes(t.tfdz), t.fhp_or_lvop),
                             insert_zone=f.insert_zone, op_ctrl_field=f.op_ctrl_field, fecf=f.fecf)

    def equal(self, x, y):   # TransferFrame defines no __eq__: compare the field values
        return c17._frame_fields(x) == c17._frame_fields(y)


# ---- EOF, Finished, Metadata: argument formats and builders of props/c06_var.py ----
def _expand(v):
    """{"fill": item, "n": k} stands for a list of k copies of item"""
    if isinstance(v, dict) and "fill" in v:
        return [v["fill"]] * v["n"] + list(v.get("then", []))
    return v


def _fault_len(t) -> Optional[int]:
    return None if t is None else len(t.value)


class EofKind(CfdpKind):
    op = "c11_eof"

    cls = EofPdu

    def ctor(self, a, conf=None): return c6v._eof(a, conf)

    def apply(self, p, s): p.fault_location = c6v._fault(s["v"])

    def extra(self, p):
        e = _hdr_extra(p.pdu_header)
        e["fault_len"] = _fault_len(p.fault_location)
        return e

    def fresh(self, p):
        fl = p.fault_location
        return EofPdu(_conf_of(p.pdu_header), bytes(p.file_checksum), int(p.file_size),
                      None if fl is None else EntityIdTlv(bytes(fl.value)), c6v._enum(ConditionCode, int(p.condition_code)))


class FinishedKind(CfdpKind):
    op = "c11_fin"

    cls = FinishedPdu

    FACTORY_ARGS = {"success_pdu": {"cond": 0, "delivery": 0, "status": 2, "responses": [], "fault": None},
                    "success_params": {"cond": 0, "delivery": 0, "status": 2, "responses": [], "fault": None},
                    "empty_params": {"cond": 0, "delivery": 0, "status": 0, "responses": [], "fault": None}}

    def ctor(self, a, conf=None):
        how = a.get("factory")
        if how:
            # key "factory" (not read by the model op): the PDU / its parameter object comes from the library's factory;
            # the line carries the documented values of that factory, which is what the model is built from
            _factory_args(a, self.FACTORY_ARGS)
            conf = c06._conf(a) if conf is None else conf
            if how == "success_pdu":
                return FinishedPdu.success_pdu(conf)
            return FinishedPdu(conf, FinishedParams.success_params() if how == "success_params" else FinishedParams.empty())
        return c6v._fin(a, conf)

    def apply(self, p, s):
        if s["set"] == "responses":
            v = _expand(s["v"])
            p.file_store_responses = None if v is None else [c6v._fsresp(r) for r in v]
        elif s["set"] == "fault":
            p.fault_location = c6v._fault(s["v"])
        else:
            p.condition_code = c6v._enum(ConditionCode, s["v"])

    def extra(self, p):
        e = _hdr_extra(p.pdu_header)
        rs = p.file_store_responses
        e.update(fault_len=_fault_len(p.fault_location), nresp=0 if rs is None else len(rs), cond=int(p.condition_code))
        return e

    def fresh(self, p):
        fl = p.fault_location
        rs = p.file_store_responses
        params = FinishedParams(c6v._enum(ConditionCode, int(p.condition_code)), DeliveryCode(int(p.delivery_code)),
                                FileStatus(int(p.file_status)),
                                None if rs is None else [FileStoreResponseTlv.unpack(bytes(r.pack())) for r in rs],
                                None if fl is None else EntityIdTlv(bytes(fl.value)))
        return FinishedPdu(_conf_of(p.pdu_header), params)


def _lv_len(name: Optional[str]) -> int:
    return 0 if name is None else len(name.encode())


class MetadataKind(CfdpKind):
    op = "c11_md"

    cls = MetadataPdu

    def ctor(self, a, conf=None): return c6v._md(a, conf)

    def apply(self, p, s):
        if s["set"] == "options":
            p.options = c6v._options(_expand(s["v"]))
        elif s["set"] == "src":
            p.source_file_name = c6v._opt_name(s["v"])
        else:
            p.dest_file_name = c6v._opt_name(s["v"])

    def extra(self, p):
        e = _hdr_extra(p.pdu_header)
        o = p.options
        e.update(src_len=_lv_len(p.source_file_name), dst_len=_lv_len(p.dest_file_name), nopts=None if o is None else len(o))
        return e

    def fresh(self, p):
        params = MetadataParams(bool(p.closure_requested), c6v._enum(ChecksumType, int(p.checksum_type)), int(p.file_size),
                                p.source_file_name, p.dest_file_name)
        o = p.options
        return MetadataPdu(_conf_of(p.pdu_header), params,
                           None if o is None else [EntityIdTlv(bytes(t.value)) if isinstance(t, EntityIdTlv)
                                                   else CfdpTlv(t.tlv_type, bytes(t.value)) for t in o])


KINDS: Dict[str, Kind] = {
    "tc": TcKind(), "tm": TmKind(), "nak": NakKind(), "ka": KaKind(), "fd": FdKind(), "frame": FrameKind(),
    "eof": EofKind(), "finished": FinishedKind(), "metadata": MetadataKind(),
}


# --------------------------------------------------------------------------------------------
# observation of one object state
# --------------------------------------------------------------------------------------------
def _obs(kind: Kind, obj, err: Optional[str], where: str, probe: bool = False) -> Dict[str, Any]:
    """`probe`: the repeated pack() is made after the caller has modified the buffer the first one returned (an encoder
    that hands out a buffer it keeps would then change its own result); done once or twice per line"""
    o: Dict[str, Any] = {"err": err, "reported": kind.reported(obj)}
    o.update(kind.extra(obj))
    before = copy.deepcopy(obj)
    try:
        raw = kind.pack(obj)
    except Exception as e:  # noqa
        cat = exc_category(e)
        if cat not in DOCUMENTED:
            raise
        o.update(raw=None, pack_err=cat, len_field=None, again=None, eq_after_pack=None, fresh=None)
        return o
    if probe:
        again = core.pack_stable(obj, f"{type(obj).__name__}.pack() {where}", packer=kind.packer(obj)) == raw
    else:
        again = kind.pack(obj) == raw
    eq_after = kind.equal(obj, before)
    try:
        f = kind.fresh(obj)
        fresh = kind.pack(f) == raw and kind.equal(f, obj)
    except Exception as e:  # noqa
        if exc_category(e) not in DOCUMENTED:
            raise
        fresh = False
    o.update(raw=_rawj(raw), pack_err=None, len_field=kind.len_field(obj, raw), again=again, eq_after_pack=eq_after,
             fresh=fresh)
    # the clauses of the property on the real code alone
    if len(raw) != o["reported"]:
        raise SelfCheckFailure(f"reported length {o['reported']} != len(pack()) {len(raw)} ({where})")
    if o["len_field"] != kind.expected_len_field(obj, raw):
        raise SelfCheckFailure(f"length field in the packed octets is {o['len_field']}, the format requires "
                               f"{kind.expected_len_field(obj, raw)} ({where})")
    if not again:
        raise SelfCheckFailure("pack() twice without changes gives different octets")
    if not eq_after:
        raise SelfCheckFailure("pack() changed the object's equality (object != deep copy taken before pack())")
    if not fresh:
        raise SelfCheckFailure("a freshly constructed object with the same final values packs differently or is not ==")
    return o


class ConstructorRefused(Exception):
    """a constructor / decoder refused arguments of the documented domain. Deliberately not a documented category and
    not a SelfCheckFailure: it is reported as a failure of its own kind, so the case minimiser (which keeps a
    shrunk case only while the KIND of violation persists) cannot drift from a length / equality failure into
    arguments outside the domain"""


def _build(thunk, what: str):
    try:
        return thunk()
    except Exception as e:  # noqa
        if exc_category(e) not in DOCUMENTED:
            raise
        raise ConstructorRefused(f"{what} refused arguments of the documented domain: {type(e).__name__}: {e}")


def _obs_diff(x: Dict[str, Any], y: Dict[str, Any]) -> str:
    ks = sorted(k for k in set(x) | set(y) if x.get(k) != y.get(k))
    return ", ".join(f"{k}: {json.dumps(x.get(k))[:90]} -> {json.dumps(y.get(k))[:90]}" for k in ks)


class Bystanders:
    """Further objects of the same class that nobody calls a setter on (case key "twin": "before" | "after" | "both" says
    whether they are built before or after the object under test). CFDP classes: every object is built from the ONE
    PduConfig object the caller holds (constructors are documented to leave it alone, so programs hand the same object
    to every PDU of a transaction); parameter objects (params dataclasses, lists, TLVs) are separate for every object.
    The property at (bystander, empty setter history): after every setter call on the OTHER object its reported length is
    still the number of octets it packs, the length field is right, and the whole observation (octets included) is what
    it was - the state machines of the model are per object. The caller's PduConfig keeps its values throughout."""

    def __init__(self, kind: Kind, a):
        self.kind, self.a = kind, a
        self.conf = _build(lambda: c06._conf(a), "PduConfig") if kind.shares_conf else None
        self.conf0 = None if self.conf is None else _snap_conf(self.conf)
        self.others: List[Any] = []       # (label, object, first observation)

    def make(self, label: str):
        o = _build(lambda: self.kind.ctor(self.a, self.conf), "constructor")
        self.others.append([label, o, None])

    def main(self):
        return _build(lambda: self.kind.build(self.a, self.conf), "constructor / decoder")

    def _where(self, label: str, when: str) -> str:
        shared = "from the same caller-supplied PduConfig object" if self.conf is not None else "from equal arguments"
        if self.a.get("factory"):
            shared += f" through the library's factory ({self.a['factory']}, like the first one)"
        return f"a second object of the class built {label} the first one {shared}, never modified; {when}"

    def check(self, when: str, what: str):
        for rec in self.others:
            label, o, first = rec
            now = _obs(self.kind, o, None, self._where(label, when))
            if first is None:
                rec[2] = now
            elif now != first:
                raise SelfCheckFailure(f"{what} changed {self._where(label, when)}: {_obs_diff(first, now)}")
        if self.conf is not None and _snap_conf(self.conf) != self.conf0:
            raise SelfCheckFailure(f"{what} modified the PduConfig object the caller passed to the constructor: "
                                   f"{self.conf0!r} -> {_snap_conf(self.conf)!r}")

    def later(self, what: str):
        """factory lines: an object made the same way AFTER all setter calls on the first one is what the bystanders were"""
        o = _build(lambda: self.kind.ctor(self.a, self.conf), "constructor")
        now = _obs(self.kind, o, None, f"an object made the same way ({what}) after the setter calls on the first one")
        first = next((rec[2] for rec in self.others if rec[2] is not None), None)
        if first is not None and now != first:
            raise SelfCheckFailure(f"{what}: an object made AFTER the setter calls on an earlier one differs from those made before "
                                   f"them: {_obs_diff(first, now)}")


def _run(kind: Kind, a) -> Dict[str, Any]:
    twin = a.get("twin")
    by = None
    if twin:
        by = Bystanders(kind, a)
        if twin in ("before", "both"):
            by.make("before")
        obj = by.main()
        if twin in ("after", "both"):
            by.make("after")
    else:
        obj = _build(lambda: kind.build(a), "constructor / decoder")
    if a.get("factory"):
        # clean-up only: what the setter calls below do to the object the factory handed out is taken back at the end
        restore = core.state_snapshot(obj)
        try:
            return _run_steps(kind, a, obj, by)
        finally:
            restore()
    return _run_steps(kind, a, obj, by)


def _run_steps(kind: Kind, a, obj, by) -> Dict[str, Any]:
    out = {"initial": _obs(kind, obj, None, "after construction", probe=True), "steps": []}
    if by is not None:
        by.check("after construction and pack() of all objects", "constructing / packing the objects")
    last = len(a["steps"]) - 1
    for i, s in enumerate(a["steps"]):
        err = None
        try:
            kind.apply(obj, s)
        except Exception as e:  # noqa
            err = exc_category(e)
            if err not in DOCUMENTED:
                raise
        when = f"after setter call #{i + 1}" + (" (refused)" if err else "")
        out["steps"].append(_obs(kind, obj, err, when, probe=i == last))
        if by is not None:
            by.check(when + " on the first object", f"setter call #{i + 1} on one object")
    if by is not None and a.get("factory"):
        by.later(f"factory={a['factory']}")
    return out


def _seq_op(name: str):
    def op(a):
        return _run(KINDS[name], a)
    return op


def op_selfcheck(a):
    """implementation-side only variant (kept for replay files written before the EOF / Finished / Metadata models existed)"""
    _run(KINDS[a["kind"]], a)
    return {"held": True}


# --------------------------------------------------------------------------------------------
# caller inputs
# --------------------------------------------------------------------------------------------
def _snap_conf(c: PduConfig):
    def bf(f):
        return (type(f).__name__, int(f.byte_len), int(f.value), bytes(f.as_bytes))
    return (bf(c.source_entity_id), bf(c.dest_entity_id), bf(c.transaction_seq_num), int(c.trans_mode), int(c.file_flag),
            int(c.crc_flag), int(c.direction), int(c.seg_ctrl))


def _snap_tlv(t):
    if t is None:
        return None
    if isinstance(t, FileStoreResponseTlv):
        return ("resp", int(t.action_code), int(t.status_code), t.first_file_name, t.second_file_name,
                bytes(t.filestore_msg.value), int(t.packet_len))
    return (type(t).__name__, int(t.tlv_type), bytes(t.value), int(t.packet_len))


def _snap(x):
    """a value snapshot of a caller-supplied argument (recursively; public attributes only)"""
    if x is None or isinstance(x, (int, str, bool)):
        return x
    if isinstance(x, (bytes, bytearray)):
        return (type(x).__name__, bytes(x))
    if isinstance(x, PduConfig):
        return _snap_conf(x)
    if isinstance(x, (list, tuple)):
        return (type(x).__name__, [_snap(e) for e in x])
    if isinstance(x, SegmentMetadata):
        return ("segmeta", int(x.record_cont_state), _snap(x.metadata))
    if isinstance(x, FileDataParams):
        return ("fdparams", _snap(x.file_data), int(x.offset), _snap(x.segment_metadata))
    if isinstance(x, FinishedParams):
        return ("finparams", int(x.condition_code), int(x.delivery_code), int(x.file_status),
                _snap(x.file_store_responses), _snap(x.fault_location))
    if isinstance(x, MetadataParams):
        return ("mdparams", bool(x.closure_requested), int(x.checksum_type), int(x.file_size), x.source_file_name,
                x.dest_file_name)
    if isinstance(x, (PrimaryHeader, TruncatedPrimaryHeader)):
        return ("uslphdr", c17._header_fields(x))
    if isinstance(x, TransferFrameDataField):
        return ("tfdf", c17._tfdf_fields(x))
    return _snap_tlv(x)


_CONF_KEYS = ("src_v", "src_w", "dst_v", "dst_w", "seq_v", "seq_w", "mode", "large", "crc", "dir", "segctrl")


def _caller_conf(a) -> PduConfig:
    """the caller's PduConfig as programs hold it: ONE object per configuration, handed to every constructor. The
    property says constructing and packing never modify it, so the instance used by earlier lines with the same
    values must still equal a new one (only used by ops that call no setter)."""
    conf = core.REUSE.get(["C11.PduConfig"] + [a.get(k) for k in _CONF_KEYS], lambda: c06._conf(a))
    new = _snap_conf(c06._conf(a))
    if _snap_conf(conf) != new:
        raise SelfCheckFailure(f"a PduConfig handed to constructors / pack() by earlier lines no longer holds its values: "
                               f"{new!r} -> {_snap_conf(conf)!r}")
    return conf


def _inputs_builders():
    """kind -> function(a) -> (list of caller-supplied argument objects, constructor thunk)"""
    def cfdp(mk):
        def b(a):
            conf = _caller_conf(a)
            args, ctor = mk(a, conf)
            return [conf] + args, ctor
        return b

    def ack(a, conf):
        return [], lambda: AckPdu(conf, DirectiveType(a["acked"]), ConditionCode(a["cond"]), TransactionStatus(a["tstatus"]))

    def prompt(a, conf):
        return [], lambda: PromptPdu(conf, ResponseRequired(a["resp"]))

    def ka(a, conf):
        return [], lambda: KeepAlivePdu(conf, a["progress"])

    def nak(a, conf):
        segs = _seglist(a["segs"])
        return [segs], lambda: NakPdu(conf, a["start"], a["end"], segs)

    def eof(a, conf):
        cks = bytearray(unhx(a["checksum"])) if a.get("mutable") else unhx(a["checksum"])
        fl = c6v._fault(a["fault"])
        return [cks, fl], lambda: EofPdu(conf, cks, a["size"], fl, c6v._enum(ConditionCode, a["cond"]))

    def finished(a, conf):
        rs = None if a.get("none_responses") else [c6v._fsresp(r) for r in a["responses"]]
        params = FinishedParams(c6v._enum(ConditionCode, a["cond"]), DeliveryCode(a["delivery"]), FileStatus(a["status"]),
                                rs, c6v._fault(a["fault"]))
        return [params], lambda: FinishedPdu(conf, params)

    def metadata(a, conf):
        params = MetadataParams(bool(a["closure"]), c6v._enum(ChecksumType, a["ctype"]), a["size"], c6v._opt_name(a["src"]),
                                c6v._opt_name(a["dst"]))
        opts = c6v._options(a["options"])
        return [params, opts], lambda: MetadataPdu(conf, params, opts)

    def fd(a, conf):
        data = bytearray(_data(a["data"])) if a.get("mutable") else _data(a["data"])
        params = FileDataParams(data, a["offset"], _meta(a))
        return [params], lambda: FileDataPdu(conf, params)

    def tc(a):
        data = bytearray(unhx(a["data"])) if a.get("mutable") else unhx(a["data"])
        return [data], lambda: PusTc(service=a["service"], subservice=a["subservice"], apid=a["apid"], app_data=data,
                                     seq_count=a["count"], source_id=a["source_id"], ack_flags=a["ack"])

    def tm(a):
        data = bytearray(unhx(a["data"])) if a.get("mutable") else unhx(a["data"])
        ts = bytearray(unhx(a["timestamp"])) if a.get("mutable") else unhx(a["timestamp"])
        return [data, ts], lambda: PusTm(service=a["service"], subservice=a["subservice"], timestamp=ts, source_data=data,
                                         apid=a["apid"], seq_count=a["count"], message_counter=a["msg_counter"],
                                         space_time_ref=a["time_ref"], destination_id=a["dest_id"],
                                         packet_version=a["version"])

    def frame(a):
        hdr = c17._header(a["hdr"])
        tfdz = bytearray(unhx(a["tfdf"]["tfdz"])) if a.get("mutable") else unhx(a["tfdf"]["tfdz"])
        iz, ocf, fecf = c17._opt(a["iz"]), c17._opt(a["ocf"]), c17._opt(a["fecf"])

        def ctor():
            tfdf = TransferFrameDataField(c17._rules(a["tfdf"]["rules"]), c17._upid(a["tfdf"]["upid"]), tfdz,
                                          a["tfdf"]["fhp"])
            return TransferFrame(hdr, tfdf, iz, ocf, fecf)
        return [hdr, tfdz, iz, ocf, fecf], ctor

    return {"ack": cfdp(ack), "prompt": cfdp(prompt), "keepalive": cfdp(ka), "nak": cfdp(nak), "eof": cfdp(eof),
            "finished": cfdp(finished), "metadata": cfdp(metadata), "filedata": cfdp(fd), "tc": tc, "tm": tm,
            "frame": frame}


INPUT_BUILDERS = _inputs_builders()


def op_inputs(a):
    """construct and pack (twice): every caller-supplied argument object is afterwards what it was before"""
    if a["kind"] == "factory":
        return op_factory(a)
    args, ctor = _build(lambda: INPUT_BUILDERS[a["kind"]](a), "argument constructors")
    before = [_snap(x) for x in args]
    obj = _build(ctor, "constructor")
    after_ctor = [_snap(x) for x in args]
    if after_ctor != before:
        i = next(i for i in range(len(before)) if before[i] != after_ctor[i])
        raise SelfCheckFailure(f"the constructor modified caller-supplied argument #{i}: {before[i]!r} -> {after_ctor[i]!r}")
    packer = (lambda: obj.pack(truncated=obj.header.truncated())) if a["kind"] == "frame" else obj.pack
    try:
        # twice, the caller modifying the buffer the first call returned in between (SelfCheckFailure if the octets differ)
        r1 = r2 = core.pack_stable(obj, f"{type(obj).__name__}.pack()", packer=packer)
    except SelfCheckFailure:
        raise
    except Exception as e:  # noqa
        if exc_category(e) not in DOCUMENTED:
            raise
        r1 = r2 = None
    after_pack = [_snap(x) for x in args]
    if after_pack != before:
        i = next(i for i in range(len(before)) if before[i] != after_pack[i])
        raise SelfCheckFailure(f"pack() modified caller-supplied argument #{i}: {before[i]!r} -> {after_pack[i]!r}")
    if r1 != r2:
        raise SelfCheckFailure("pack() twice gives different octets")
    return {"untouched": True}


def op_conf(a):
    """the object's direction and the caller's configuration after construction and pack()"""
    conf = _build(lambda: _caller_conf(a), "PduConfig")
    before = _snap_conf(conf)
    if a["kind"] == "nak":
        p = _build(lambda: NakPdu(conf, 0, 0, []), "constructor")
    elif a["kind"] == "keepalive":
        p = _build(lambda: KeepAlivePdu(conf, 0), "constructor")
    elif a["kind"] == "eof":
        p = _build(lambda: EofPdu(conf, bytes(4), 0), "constructor")
    elif a["kind"] == "finished":
        p = _build(lambda: FinishedPdu(conf, FinishedParams(ConditionCode.NO_ERROR, DeliveryCode(0), FileStatus(0))), "constructor")
    elif a["kind"] == "metadata":
        p = _build(lambda: MetadataPdu(conf, MetadataParams(False, ChecksumType(0), 0, None, None)), "constructor")
    else:
        p = _build(lambda: FileDataPdu(conf, FileDataParams.empty()), "constructor")
    if _snap_conf(conf) != before:
        raise SelfCheckFailure(f"the constructor modified the caller's PduConfig: {before!r} -> {_snap_conf(conf)!r}")
    p.pack()
    if _snap_conf(conf) != before:
        raise SelfCheckFailure(f"pack() modified the caller's PduConfig: {before!r} -> {_snap_conf(conf)!r}")
    s, d, q = conf.source_entity_id, conf.dest_entity_id, conf.transaction_seq_num
    return {"obj_dir": int(p.pdu_header.direction),
            "caller": {"src_w": int(s.byte_len), "src_v": int(s.value), "dst_w": int(d.byte_len), "dst_v": int(d.value),
                       "seq_w": int(q.byte_len), "seq_v": int(q.value), "mode": int(conf.trans_mode),
                       "large": int(conf.file_flag), "crc": int(conf.crc_flag), "dir": int(conf.direction),
                       "segctrl": int(conf.seg_ctrl)}}


# --------------------------------------------------------------------------------------------
# factories: classmethods / staticmethods / helper functions of the package that build an object of a mutable class
# without being handed all of its state (`empty()`, `default()`, `success_params()`, `from_*`, `create_*`). The state
# machines of the property are per object: what one call returned is not changed by setter calls on what another call
# returned, and a later call returns the documented value again. One probe = core.factory_independent on the real code.
# A case carries the name of the factory and every value used ("p"), so that it replays in a fresh process.
# --------------------------------------------------------------------------------------------
class Factory:
    def __init__(self, make, view, mutate, documented=None, fresh_ok=None, latent: str = ""):
        self.make, self.view, self.mutate, self.documented, self.fresh_ok, self.latent = make, view, mutate, documented, fresh_ok, latent


def _tset(obj, name, value):
    return core.tolerant_set(obj, name, value)


def _v_field(f):
    return {"w": int(f.byte_len), "v": int(f.value), "raw": hx(f.as_bytes), "len": len(f), "int": int(f)}


def _v_conf(c):
    return {"src": _v_field(c.source_entity_id), "dst": _v_field(c.dest_entity_id), "seq": _v_field(c.transaction_seq_num),
            "mode": int(c.trans_mode), "large": int(c.file_flag), "crc": int(c.crc_flag), "dir": int(c.direction),
            "segctrl": int(c.seg_ctrl), "header_len": int(c.header_len())}


def _v_lv(x):
    return {"value": hx(x.value), "value_len": int(x.value_len), "len": int(x.packet_len), "raw": hx(x.pack())}


def _v_resp(t):
    return {"action": int(t.action_code), "status": int(t.status_code), "first": t.first_file_name, "second": t.second_file_name,
            "msg": _v_lv(t.filestore_msg), "len": int(t.packet_len), "raw": hx(t.pack())}


def _v_finparams(x):
    fl = x.fault_location
    return {"cond": int(x.condition_code), "delivery": int(x.delivery_code), "status": int(x.file_status),
            "responses": None if x.file_store_responses is None else [_v_resp(r) for r in x.file_store_responses],
            "fault": None if fl is None else hx(fl.value)}


def _v_fdparams(x):
    sm = x.segment_metadata
    return {"data": hx(x.file_data), "offset": int(x.offset),
            "meta": None if sm is None else [int(sm.record_cont_state), hx(sm.metadata)]}


def _v_pdu(name):
    def v(p):
        return _obs(KINDS[name], p, None, "the object the factory returned")
    return v


def _v_tc(t):
    return {"raw": hx(t.pack()), "len": int(t.packet_len), "apid": int(t.apid), "count": int(t.seq_count), "service": int(t.service),
            "subservice": int(t.subservice), "source_id": int(t.source_id), "data": hx(t.app_data), "dlen": int(t.sp_header.data_len)}


def _v_tm(t):
    return {"raw": hx(t.pack()), "len": int(t.packet_len), "apid": int(t.apid), "count": int(t.seq_count), "service": int(t.service),
            "subservice": int(t.subservice), "data": hx(t.tm_data), "ts": hx(t.timestamp), "flags": int(t.seq_flags)}


def _v_pid(x):
    return {"raw": int(x.raw()), "apid": int(x.apid), "ptype": int(x.ptype), "shf": bool(x.sec_header_flag)}


def _v_psc(x):
    return {"raw": int(x.raw()), "flags": int(x.seq_flags), "count": int(x.seq_count)}


def _v_reqid(r):
    return {"u32": int(r.as_u32()), "raw": hx(r.pack()), "version": int(r.ccsds_version), "pid": _v_pid(r.tc_packet_id),
            "psc": _v_psc(r.tc_psc)}


def _v_sph(h):
    return {"raw": hx(h.pack()), "apid": int(h.apid), "count": int(h.seq_count), "flags": int(h.seq_flags), "ptype": int(h.packet_type),
            "shf": bool(h.sec_header_flag), "dlen": int(h.data_len), "version": int(h.ccsds_version), "len": int(h.packet_len)}


def _v_cds(t):
    return {"days": int(t.ccsds_days), "ms": int(t.ms_of_day), "raw": hx(t.pack()), "unix": float(t.as_unix_seconds()),
            "dt": t.as_datetime().isoformat()}


def _v_s1(t):
    sid, fn = t.step_id, t.failure_notice
    return {"raw": hx(t.pack()), "req": _v_reqid(t.tc_req_id), "subservice": int(t.subservice), "apid": int(t.pus_tm.apid),
            "data": hx(t.pus_tm.tm_data), "step": None if sid is None else [int(sid.pfc), int(sid.val)],
            "failure": None if fn is None else [int(fn.code.pfc), int(fn.code.val), hx(fn.data)]}


def _m_field(f, v: int):
    """the documented setters of an unsigned byte field"""
    if int(f.byte_len) == 0:
        _tset(f, "byte_len", 2)
    _tset(f, "value", v % (1 << (8 * max(1, int(f.byte_len)))))


def _m_conf(c, p):
    _tset(c, "crc_flag", CrcFlag.WITH_CRC)
    _tset(c, "file_flag", LargeFileFlag.LARGE)
    _tset(c, "trans_mode", TransmissionMode.UNACKNOWLEDGED)
    _tset(c, "direction", Direction.TOWARDS_SENDER)
    _tset(c, "seg_ctrl", SegmentationControl.RECORD_BOUNDARIES_PRESERVATION)
    _m_field(c.source_entity_id, p["u8"])
    _m_field(c.transaction_seq_num, p["u8"] ^ 0xFF)
    _tset(c, "dest_entity_id", UnsignedByteField(p["u16"], 2))


def _a_resp(p):
    return FileStoreResponseTlv(FilestoreActionCode.DELETE_FILE_SNN, FilestoreResponseStatusCode.DELETE_NOT_ALLOWED, p["text"])


def _m_finparams(x, p):
    _tset(x, "condition_code", ConditionCode.FILESTORE_REJECTION)
    _tset(x, "delivery_code", DeliveryCode.DATA_INCOMPLETE)
    _tset(x, "file_status", FileStatus.DISCARDED_FILESTORE_REJECTION)
    if x.file_store_responses is not None:
        x.file_store_responses.append(_a_resp(p))
    _tset(x, "fault_location", EntityIdTlv(unhx(p["id"])))


def _m_finpdu(x, p):
    _tset(x, "condition_code", ConditionCode.FILESTORE_REJECTION)
    _tset(x, "file_store_responses", [_a_resp(p)])
    _tset(x, "fault_location", EntityIdTlv(unhx(p["id"])))


def _m_fdparams(x, p):
    _tset(x, "file_data", unhx(p["data"]))
    _tset(x, "offset", p["u16"])
    _tset(x, "segment_metadata", SegmentMetadata(RecordContinuationState.START_AND_END, unhx(p["id"])))


def _m_fdpdu(x, p):
    _tset(x, "file_data", unhx(p["data"]))
    _tset(x, "segment_metadata", SegmentMetadata(RecordContinuationState.START_AND_END, unhx(p["id"])))


def _m_lv(x, p):
    # CfdpLv has no setters: its state is the two public attributes the constructor assigns
    v = unhx(p["data"])
    _tset(x, "value", v)
    _tset(x, "value_len", len(v))


def _m_tc(t, p):
    _tset(t, "app_data", unhx(p["data"]))
    _tset(t, "apid", p["apid"])
    _tset(t, "seq_count", p["count"])
    _tset(t, "source_id", p["u16"])


def _m_tm(t, p):
    _tset(t, "tm_data", unhx(p["data"]))
    _tset(t, "apid", p["apid"])
    _tset(t, "seq_flags", SequenceFlags.FIRST_SEGMENT)


def _m_pid(x, p):
    _tset(x, "apid", p["apid"])
    _tset(x, "ptype", PacketType.TC if int(x.ptype) == int(PacketType.TM) else PacketType.TM)
    _tset(x, "sec_header_flag", not x.sec_header_flag)


def _m_psc(x, p):
    _tset(x, "seq_count", p["count"])
    _tset(x, "seq_flags", SequenceFlags.FIRST_SEGMENT if int(x.seq_flags) != int(SequenceFlags.FIRST_SEGMENT) else SequenceFlags.UNSEGMENTED)


def _m_reqid(r, p):
    _m_pid(r.tc_packet_id, p)
    _m_psc(r.tc_psc, p)
    _tset(r, "ccsds_version", 5)


def _m_sph(h, p):
    _tset(h, "apid", p["apid"])
    _tset(h, "seq_count", p["count"])
    _tset(h, "seq_flags", SequenceFlags.FIRST_SEGMENT)
    _tset(h, "sec_header_flag", not h.sec_header_flag)
    _tset(h, "packet_type", PacketType.TC if int(h.packet_type) == int(PacketType.TM) else PacketType.TM)
    _tset(h, "data_len", p["u16"])


def _m_cds(t, p):
    core.attempt_all([
        lambda: t.read_from_raw(bytes([0x40]) + (p["u16"] % 40000).to_bytes(2, "big") + (p["count"] * 1000 + p["u8"]).to_bytes(4, "big")),
        lambda: t + datetime.timedelta(days=1 + p["u8"], seconds=p["u16"], milliseconds=p["u8"]),     # documented to update the object
    ])


def _m_s1(t, p):
    _tset(t, "tc_req_id", RequestId(PacketId(PacketType.TC, True, p["apid"]), PacketSeqCtrl(SequenceFlags.UNSEGMENTED, p["count"])))
    _tset(t.pus_tm, "tm_data", unhx(p["data"]))
    _tset(t.pus_tm, "apid", p["apid"])


def _sph_of(p, ptype=PacketType.TC):
    return SpacePacketHeader(packet_type=ptype, apid=p["apid2"], seq_count=p["count2"], data_len=p["u8"], sec_header_flag=True)


def _tc_of(p):
    return PusTc(service=p["u8"], subservice=p["u8"] ^ 0x55, apid=p["apid2"], seq_count=p["count2"], app_data=unhx(p["id"]))


def _conf_of_p(p):
    return PduConfig(UnsignedByteField(p["u16"], 2), UnsignedByteField(p["u16"] ^ 0xFFFF, 2), UnsignedByteField(p["u8"], 1),
                     TransmissionMode.ACKNOWLEDGED, crc_flag=CrcFlag(p["u8"] & 1), file_flag=LargeFileFlag((p["u8"] >> 1) & 1))


FIXED_DT = datetime.datetime(2023, 7, 14, 21, 5, 9, 123000, tzinfo=datetime.timezone.utc)
TS7 = bytes([0x40, 0x12, 0x34, 0x00, 0x56, 0x78, 0x9A])


def _later(new, old) -> bool:
    """clock-dependent factories: a later call shows the same or a slightly later time"""
    return 0.0 <= new["unix"] - old["unix"] < 900.0


def _quiet(f):
    def g(*args):
        with warnings.catch_warnings():
            warnings.simplefilter("ignore")
            return f(*args)
    return g


def _factories() -> Dict[str, Factory]:
    F = Factory
    zero_field = {"w": 1, "v": 0, "raw": "00", "len": 1, "int": 0}
    none_field = {"w": 0, "v": 0, "raw": "", "len": 0, "int": 0}
    fs: Dict[str, Factory] = {
        # ---- CFDP ----
        "PduConfig.default()": F(lambda p: PduConfig.default(), _v_conf, _m_conf,
                                 documented=lambda p: {"src": zero_field, "dst": zero_field, "seq": zero_field, "mode": 0, "large": 0,
                                                       "crc": 0, "dir": 0, "segctrl": 0, "header_len": 7}),
        "PduConfig.empty()": F(lambda p: PduConfig.empty(), _v_conf, _m_conf,
                               documented=lambda p: {"src": none_field, "dst": none_field, "seq": none_field, "mode": 0, "large": 0,
                                                     "crc": 0, "dir": 0, "segctrl": 0, "header_len": 4}),
        "FinishedParams.empty()": F(lambda p: FinishedParams.empty(), _v_finparams, _m_finparams,
                                    documented=lambda p: {"cond": 0, "delivery": 0, "status": 0, "responses": [], "fault": None}),
        "FinishedParams.success_params()": F(lambda p: FinishedParams.success_params(), _v_finparams, _m_finparams,
                                             documented=lambda p: {"cond": 0, "delivery": 0, "status": 2, "responses": [], "fault": None}),
        "FinishedPdu.success_pdu(conf)": F(lambda p: FinishedPdu.success_pdu(_conf_of_p(p)), _v_pdu("finished"), _m_finpdu),
        "FinishedPdu(conf, FinishedParams.success_params())":
            F(lambda p: FinishedPdu(_conf_of_p(p), FinishedParams.success_params()), _v_pdu("finished"), _m_finpdu),
        "FinishedPdu(conf, FinishedParams.empty())":
            F(lambda p: FinishedPdu(_conf_of_p(p), FinishedParams.empty()), _v_pdu("finished"), _m_finpdu),
        "FinishedPdu.success_pdu(PduConfig.default())": F(lambda p: FinishedPdu.success_pdu(PduConfig.default()), _v_pdu("finished"), _m_finpdu),
        "FileDataParams.empty()": F(lambda p: FileDataParams.empty(), _v_fdparams, _m_fdparams,
                                    documented=lambda p: {"data": "", "offset": 0, "meta": None}),
        "FileDataPdu(conf, FileDataParams.empty())":
            F(lambda p: FileDataPdu(_conf_of_p(p), FileDataParams.empty()), _v_pdu("fd"), _m_fdpdu),
        "KeepAlivePdu(PduConfig.default(), 0)": F(lambda p: KeepAlivePdu(PduConfig.default(), p["u16"]), _v_pdu("ka"),
                                                  lambda x, p: _tset(x, "file_flag", LargeFileFlag.LARGE)),
        "NakPdu(PduConfig.default(), 0, n, [])":
            F(lambda p: NakPdu(PduConfig.default(), 0, p["u16"], []), _v_pdu("nak"),
              lambda x, p: (_tset(x, "segment_requests", [(0, p["u8"]), (p["u8"], p["u16"])]), _tset(x, "file_flag", LargeFileFlag.LARGE))),
        "CfdpLv.from_str(s)": F(lambda p: CfdpLv.from_str(p["text"]), _v_lv, _m_lv),
        "CfdpLv.from_path(path)": F(lambda p: CfdpLv.from_path(pathlib.Path("/tmp") / p["text"]), _v_lv, _m_lv),
        "DirectoryParams.from_strs(dir, name)":
            F(lambda p: DirectoryParams.from_strs("/" + p["text"], p["text"] + ".txt"),
              lambda x: {"path": _v_lv(x.dir_path), "name": _v_lv(x.dir_file_name), "path_s": x.dir_path_as_str, "name_s": x.dir_file_name_as_str},
              lambda x, p: (_m_lv(x.dir_path, p), _tset(x, "dir_file_name", CfdpLv(unhx(p["id"]))))),
        "DirectoryParams.from_paths(dir, name)":
            F(lambda p: DirectoryParams.from_paths(pathlib.Path("/" + p["text"]), pathlib.Path(p["text"] + ".txt")),
              lambda x: {"path": _v_lv(x.dir_path), "name": _v_lv(x.dir_file_name), "path_s": x.dir_path_as_str, "name_s": x.dir_file_name_as_str},
              lambda x, p: (_m_lv(x.dir_file_name, p), _tset(x, "dir_path", CfdpLv(unhx(p["id"]))))),
        "ProxyPutResponseParams.from_finished_params(params)":
            F(lambda p: ProxyPutResponseParams.from_finished_params(FinishedParams.success_params()),
              lambda x: {"cond": int(x.condition_code), "delivery": int(x.delivery_code), "status": int(x.file_status)},
              lambda x, p: (_tset(x, "condition_code", ConditionCode.FILESTORE_REJECTION), _tset(x, "delivery_code", DeliveryCode.DATA_INCOMPLETE),
                            _tset(x, "file_status", FileStatus.DISCARDED_FILESTORE_REJECTION)),
              documented=lambda p: {"cond": 0, "delivery": 0, "status": 2}),
        # ---- space packets / PUS ----
        "PusTc.empty()": F(lambda p: PusTc.empty(), _v_tc, _m_tc),
        "PusTc.from_sp_header(header, service, subservice, data)":
            F(lambda p: PusTc.from_sp_header(_sph_of(p), p["u8"], p["u8"] ^ 0x55, unhx(p["id"])), _v_tc, _m_tc),
        "PusTc.from_composite_fields(header, sec_header, data)":
            F(lambda p: PusTc.from_composite_fields(_sph_of(p), PusTcDataFieldHeader(p["u8"], p["u8"] ^ 0x55), unhx(p["id"])), _v_tc, _m_tc),
        "PusTm.empty()": F(lambda p: PusTm.empty(), _v_tm, _m_tm),
        "PusTm.from_composite_fields(header, sec_header, data)":
            F(lambda p: PusTm.from_composite_fields(_sph_of(p, PacketType.TM), PusTmSecondaryHeader(p["u8"], p["u8"] ^ 0x55, TS7, p["u16"]),
                                                   unhx(p["id"])), _v_tm, _m_tm),
        "RequestId.empty()": F(lambda p: RequestId.empty(), _v_reqid, _m_reqid),
        "RequestId.from_sp_header(header)": F(lambda p: RequestId.from_sp_header(_sph_of(p)), _v_reqid, _m_reqid),
        "RequestId.from_pus_tc(tc)": F(lambda p: RequestId.from_pus_tc(_tc_of(p)), _v_reqid, _m_reqid),
        "PacketId.empty()": F(lambda p: PacketId.empty(), _v_pid, _m_pid,
                              documented=lambda p: {"raw": 0, "apid": 0, "ptype": 0, "shf": False}),
        "PacketId.from_raw(raw)": F(lambda p: PacketId.from_raw(p["raw16"] & 0x1FFF), _v_pid, _m_pid),
        "PacketSeqCtrl.empty()": F(lambda p: PacketSeqCtrl.empty(), _v_psc, _m_psc, documented=lambda p: {"raw": 0, "flags": 0, "count": 0}),
        "PacketSeqCtrl.from_raw(raw)": F(lambda p: PacketSeqCtrl.from_raw(p["raw16"]), _v_psc, _m_psc),
        "SpacePacketHeader.from_composite_fields(packet_id, psc, data_length)":
            F(lambda p: SpacePacketHeader.from_composite_fields(PacketId.from_raw(p["raw16"] & 0x1FFF), PacketSeqCtrl.from_raw(p["raw16"] ^ 0x5A5A),
                                                                p["u16"]), _v_sph, _m_sph),
        "Service1Tm(apid, subservice, timestamp)":
            F(lambda p: Service1Tm(apid=p["apid2"], subservice=Subservice.TM_ACCEPTANCE_SUCCESS, timestamp=TS7), _v_s1,
              lambda x, p: (_m_reqid(x.tc_req_id, p), _m_s1(x, p))),
        # ---- time, fields, helpers ----
        "CdsShortTimestamp.empty()": F(lambda p: CdsShortTimestamp.empty(), _v_cds, _m_cds),
        "CdsShortTimestamp.from_unix_days(days, ms)": F(lambda p: CdsShortTimestamp.from_unix_days(p["u16"] % 40000, p["count"] * 1000), _v_cds, _m_cds),
        "CdsShortTimestamp.from_datetime(dt)": F(lambda p: CdsShortTimestamp.from_datetime(FIXED_DT + datetime.timedelta(days=p["u8"])), _v_cds, _m_cds),
        "CdsShortTimestamp.now()": F(lambda p: CdsShortTimestamp.now(), _v_cds, _m_cds, fresh_ok=_later),
        "CdsShortTimestamp.from_now()": F(_quiet(lambda p: CdsShortTimestamp.from_now()), _v_cds, _m_cds, fresh_ok=_later),
        "UnsignedByteField.from_bytes(raw)": F(lambda p: UnsignedByteField.from_bytes(unhx(p["w4"])), _v_field, lambda x, p: _m_field(x, p["u16"])),
        "ByteFieldU8.from_u8_bytes(raw)": F(lambda p: ByteFieldU8.from_u8_bytes(unhx(p["w8"])), _v_field, lambda x, p: _m_field(x, p["u16"])),
        "ByteFieldU16.from_u16_bytes(raw)": F(lambda p: ByteFieldU16.from_u16_bytes(unhx(p["w8"])), _v_field, lambda x, p: _m_field(x, p["u16"])),
        "ByteFieldU32.from_u32_bytes(raw)": F(lambda p: ByteFieldU32.from_u32_bytes(unhx(p["w8"])), _v_field, lambda x, p: _m_field(x, p["u16"])),
        "ByteFieldU64.from_u64_bytes(raw)": F(lambda p: ByteFieldU64.from_u64_bytes(unhx(p["w8"])), _v_field, lambda x, p: _m_field(x, p["u16"])),
        "ByteFieldGenerator.from_int(width, value)":
            F(lambda p: ByteFieldGenerator.from_int(p["width"], p["u8"]), _v_field, lambda x, p: _m_field(x, p["u16"])),
        "ByteFieldGenerator.from_bytes(width, raw)":
            F(lambda p: ByteFieldGenerator.from_bytes(p["width"], unhx(p["w8"])), _v_field, lambda x, p: _m_field(x, p["u16"])),
        "ByteFieldEmpty()": F(lambda p: ByteFieldEmpty(), _v_field, lambda x, p: _m_field(x, p["u16"]), documented=lambda p: none_field),
        "Countdown.from_seconds(s)": F(lambda p: Countdown.from_seconds(p["u16"]), lambda c: {"ms": int(c.timeout_ms), "s": c.timeout.total_seconds()},
                                       lambda c, p: (_tset(c, "timeout", datetime.timedelta(milliseconds=p["count"])),
                                                     c.reset(datetime.timedelta(milliseconds=p["count"] + 1)))),
        "Countdown.from_millis(ms)": F(lambda p: Countdown.from_millis(p["u16"]), lambda c: {"ms": int(c.timeout_ms), "s": c.timeout.total_seconds()},
                                      lambda c, p: (_tset(c, "timeout", datetime.timedelta(milliseconds=p["count"])),
                                                    c.reset(datetime.timedelta(milliseconds=p["count"] + 1)))),
        "PacketFieldEnum.with_byte_size(n, value)":
            F(lambda p: PacketFieldEnum.with_byte_size(p["width"], p["u8"]),
              lambda e: {"pfc": int(e.pfc), "val": int(e.val), "raw": hx(e.pack()), "len": int(e.len())},
              lambda e, p: _tset(e, "val", p["u8"] ^ 0xFF)),
        # ---- results that share an object by construction on the tree the framework was written for; not generated, kept
        #      so that the sequences can be replayed (see `latent`) ----
        "FileStoreResponseTlv(action, status, name)":
            F(lambda p: FileStoreResponseTlv(FilestoreActionCode.DELETE_FILE_SNN, FilestoreResponseStatusCode.DELETE_SUCCESS, p["text"]),
              _v_resp, lambda x, p: _m_lv(x.filestore_msg, p),
              latent="the default argument filestore_msg=CfdpLv(b'') is ONE object for every TLV built without a message; CfdpLv has no "
                     "setter, the sharing shows only when its public attributes value / value_len are assigned"),
        "RequestId.from_pus_tc(tc), twice for ONE tc":
            F(None, _v_reqid, _m_reqid,
              latent="the RequestId holds the PacketId / PacketSeqCtrl objects of the telecommand's header (no copy): two request IDs of "
                     "one telecommand, and the telecommand, change together when the public attributes of either are assigned"),
    }
    _one_tc: Dict[str, Any] = {}

    def shared_tc(p):
        k = json.dumps(p, sort_keys=True)
        if k not in _one_tc:
            _one_tc.clear()
            _one_tc[k] = _tc_of(p)
        return RequestId.from_pus_tc(_one_tc[k])
    fs["RequestId.from_pus_tc(tc), twice for ONE tc"].make = shared_tc
    for n, (sub, extra) in {"create_acceptance_success_tm": (1, ""), "create_acceptance_failure_tm": (2, "f"),
                            "create_start_success_tm": (3, ""), "create_start_failure_tm": (4, "f"),
                            "create_step_success_tm": (5, "s"), "create_step_failure_tm": (6, "sf"),
                            "create_completion_success_tm": (7, ""), "create_completion_failure_tm": (8, "f")}.items():
        def mk(p, n=n, extra=extra):
            kw: Dict[str, Any] = {"apid": p["apid2"], "pus_tc": _tc_of(p), "timestamp": TS7}
            if "s" in extra:
                kw["step_id"] = PacketFieldEnum.with_byte_size(1, p["u8"])
            if "f" in extra:
                kw["failure_notice"] = FailureNotice(PacketFieldEnum.with_byte_size(1, p["u8"] ^ 0x0F), unhx(p["id"]))
            return getattr(pus1, n)(**kw)
        fs[f"{n}(apid, tc, ...)"] = F(mk, _v_s1, _m_s1)
    return fs


FACTORIES = _factories()


def factory_params(rng: random.Random) -> Dict[str, Any]:
    """every value a factory probe uses (arguments of the factory and of the setter calls)"""
    return {"apid": rng.randint(1, 2047), "apid2": rng.randint(1, 2047), "count": rng.randint(1, 16383), "count2": rng.randint(1, 16383),
            "u8": rng.randint(1, 255), "u16": rng.randint(256, 65535), "raw16": rng.randint(0, 65535),
            "data": hx(rbytes(rng, rng.randint(1, 12))), "id": hx(rbytes(rng, rng.choice([1, 2, 4, 8]))),
            "w4": hx(rbytes(rng, rng.choice([1, 2, 4, 8]))), "w8": hx(rbytes(rng, 8)), "width": rng.choice([1, 2, 4, 8]),
            "text": "".join(rng.choice("abcdefghijklmnopqrstuvwxyz") for _ in range(rng.randint(1, 8)))}


def op_factory(a):
    """key "factory" of a c11_inputs line (the model op answers every c11_inputs line with untouched=true)"""
    name, p = a["factory"], a["p"]
    f = FACTORIES.get(name)
    if f is None:
        raise core.InfraError(f"C11: no factory probe named {name!r}")
    documented = None if f.documented is None else f.documented(p)
    err = core.factory_independent(lambda: f.make(p), f.view, lambda x: f.mutate(x, p), name, documented=documented, fresh_ok=f.fresh_ok)
    if err is not None:
        raise SelfCheckFailure(err)
    return {"untouched": True}


# --------------------------------------------------------------------------------------------
# heap_alias: the OBSERVED alias graph of a scenario, against the one the object-graph model predicts
# (lean/SpVerif/Model/Heap.lean, Ops/Heap.lean, theorems in Props/C11Heap.lean; DESIGN 13.10).
#
# A scenario = setup (the objects the caller holds) + ONE library call. For the named access paths of the line (dotted PUBLIC
# attribute names from a named root) the op evaluates the paths with getattr chains, keeps those that denote a mutable library
# object (instances of the package's classes and lists; never ints / bytes / enums / None - their identity is a CPython
# detail), partitions them with `is`, and detects writes by a deep value snapshot (public API) of every object that existed
# before the call. Compared with the model under the rule of DESIGN 13.10:
#   * every pair the MODEL says is separated must be two objects here            -> key `separated_broken` (must be [])
#   * every object modified by the call must be one the MODEL says is written    -> key `unexpected_writes` (must be [])
#   * the same paths denote objects                                               -> key `objects`
#   * pairs the model says are SHARED but that are two objects here (an implementation that copies more), and predicted
#     writes that do not happen, are information (`more_separated`, `fewer_writes`), never a violation.
# The model's prediction travels in the line (`claim`, filled in by the generator from the driver's answer to the same
# line; the model op re-derives it and answers `claim_ok`), so a replay file is self-contained.
# --------------------------------------------------------------------------------------------
PDU_KINDS = ["ack", "prompt", "keepalive", "nak", "eof", "finished", "metadata", "filedata"]
ALIAS_INFO: Dict[str, Any] = {"lines": 0, "shared_pairs_predicted": 0, "shared_pairs_observed": 0, "more_separated": {},
                              "writes_predicted": 0, "writes_observed": 0}


def _P(p, k: str) -> int:
    return int(p.get(k, 0))


def _h_tc(p):
    return PusTc(service=_P(p, "service"), subservice=_P(p, "subservice"), apid=_P(p, "apid"), app_data=bytes(_P(p, "dlen")),
                 seq_count=_P(p, "count"), source_id=_P(p, "source_id"), ack_flags=_P(p, "ack"))


def _h_tm(p):
    return PusTm(service=_P(p, "service"), subservice=_P(p, "subservice"), timestamp=bytes(_P(p, "tslen")),
                 source_data=bytes(_P(p, "dlen")), apid=_P(p, "apid"), seq_count=_P(p, "count"))


def _h_hdr(p):
    return SpacePacketHeader(packet_type=PacketType(_P(p, "ptype")), apid=_P(p, "apid"), seq_count=_P(p, "count"),
                             data_len=_P(p, "hdlen"), sec_header_flag=bool(_P(p, "shf")), seq_flags=SequenceFlags(_P(p, "flags")),
                             ccsds_version=_P(p, "version"))


def _h_conf(p):
    return PduConfig(source_entity_id=UnsignedByteField(_P(p, "src_v"), _P(p, "idw")),
                     dest_entity_id=UnsignedByteField(_P(p, "dst_v"), _P(p, "idw")),
                     transaction_seq_num=UnsignedByteField(_P(p, "seq_v"), _P(p, "seqw")),
                     trans_mode=TransmissionMode(_P(p, "mode")), file_flag=LargeFileFlag(_P(p, "large")),
                     crc_flag=CrcFlag(_P(p, "crc")), direction=Direction(_P(p, "dir")), seg_ctrl=SegmentationControl(_P(p, "segctrl")))


def _h_resps(n: int):
    return [FileStoreResponseTlv(FilestoreActionCode.DELETE_FILE_SNN, FilestoreResponseStatusCode.DELETE_SUCCESS, f"f{i}.txt")
            for i in range(n)]


def _h_caller_objs(kind: str, p) -> Dict[str, Any]:
    """the parameter objects the caller builds for a PDU of the kind"""
    if kind == "nak":
        return {} if _P(p, "segs_none") else {"segs": [(i, i + 1) for i in range(_P(p, "nsegs"))]}
    if kind == "eof":
        return {"fl": EntityIdTlv(bytes([7]) * _P(p, "idw"))} if _P(p, "fault") else {}
    if kind == "finished":
        fl = EntityIdTlv(bytes([7]) * _P(p, "idw")) if _P(p, "fault") else None
        return {"params": FinishedParams(ConditionCode(_P(p, "cond")), DeliveryCode(_P(p, "delivery")), FileStatus(_P(p, "status")),
                                         _h_resps(_P(p, "nresp")), fl)}
    if kind == "metadata":
        r = {"params": MetadataParams(bool(_P(p, "closure")), ChecksumType(_P(p, "ctype")), _P(p, "size"), "src.bin", "dst.bin")}
        if _P(p, "opts"):
            r["options"] = [CfdpTlv(TlvType.FLOW_LABEL, bytes([1, 2, 3]))]
        return r
    if kind == "filedata":
        sm = SegmentMetadata(RecordContinuationState(_P(p, "state")), bytes(_P(p, "metalen"))) if _P(p, "meta") else None
        return {"params": FileDataParams(bytes(_P(p, "dlen")), _P(p, "offset"), sm)}
    return {}


def _h_build_pdu(kind: str, p, r: Dict[str, Any]):
    conf = r["conf"]
    if kind == "ack":
        return AckPdu(conf, DirectiveType(_P(p, "acked")), ConditionCode(_P(p, "cond")), TransactionStatus(_P(p, "tstatus")))
    if kind == "prompt":
        return PromptPdu(conf, ResponseRequired(_P(p, "resp")))
    if kind == "keepalive":
        return KeepAlivePdu(conf, _P(p, "progress"))
    if kind == "nak":
        return NakPdu(conf, 0, _P(p, "end"), r.get("segs"))
    if kind == "eof":
        return EofPdu(conf, bytes(4), _P(p, "size"), r.get("fl"), ConditionCode(_P(p, "cond")))
    if kind == "finished":
        return FinishedPdu(conf, r["params"])
    if kind == "metadata":
        return MetadataPdu(conf, r["params"], r.get("options"))
    return FileDataPdu(conf, r["params"])


def _h_conf_objs_pdu(kind: str, p) -> Dict[str, Any]:
    r = {"conf": _h_conf(p)}
    r.update(_h_caller_objs(kind, p))
    r["pdu"] = _h_build_pdu(kind, p, r)
    return r


def _h_tc_set(tc, p):
    which, v = _P(p, "set"), _P(p, "v")
    if which == 0:
        tc.seq_count = v
    elif which == 1:
        tc.apid = v
    elif which == 2:
        tc.source_id = v
    else:
        tc.app_data = bytes(v)


def _h_tm_set(tm, p):
    which, v = _P(p, "set"), _P(p, "v")
    if which == 0:
        tm.apid = v
    elif which == 1:
        tm.seq_flags = SequenceFlags(v)
    else:
        tm.tm_data = bytes(v)


_CONF_SCALARS = [("trans_mode", TransmissionMode), ("file_flag", LargeFileFlag), ("crc_flag", CrcFlag), ("direction", Direction),
                 ("seg_ctrl", SegmentationControl)]
_CONF_FIELDS = ["source_entity_id", "dest_entity_id", "transaction_seq_num"]
_S1_CREATORS = {1: "create_acceptance_success_tm", 3: "create_start_success_tm", 7: "create_completion_success_tm"}


_HDR_SCALARS = [("transmission_mode", TransmissionMode), ("file_flag", LargeFileFlag), ("crc_flag", CrcFlag), ("direction", Direction),
                ("seg_ctrl", SegmentationControl)]


def _h_uslp_hdr(p):
    from spacepackets.uslp.header import SourceOrDestField, BypassSequenceControlFlag, ProtocolCommandFlag
    if _P(p, "trunc"):
        return TruncatedPrimaryHeader(scid=_P(p, "scid"), src_dest=SourceOrDestField(_P(p, "srcdest")), vcid=_P(p, "vcid"),
                                      map_id=_P(p, "mapid"))
    vl = _P(p, "vcflen")
    return PrimaryHeader(scid=_P(p, "scid"), src_dest=SourceOrDestField(_P(p, "srcdest")), vcid=_P(p, "vcid"), map_id=_P(p, "mapid"),
                         frame_len=_P(p, "flen"), bypass_seq_ctrl_flag=BypassSequenceControlFlag(0),
                         prot_ctrl_cmd_flag=ProtocolCommandFlag(0), op_ctrl_flag=bool(_P(p, "ocfflag")), vcf_count_len=vl,
                         vcf_count=(0 if vl else None))


def _h_opt(p, k):
    return bytes(_P(p, k)) if _P(p, k + "_some") else None


def _h_tfdf(p):
    return TransferFrameDataField(c17._rules(_P(p, "rules")), c17._upid(_P(p, "upid")), bytes(_P(p, "tfdzlen")),
                                  _P(p, "fhp") if _P(p, "fhp_some") else None)


def _h_hdr_tfdf_frame(p):
    hdr, tfdf = _h_uslp_hdr(p), _h_tfdf(p)
    return {"hdr": hdr, "tfdf": tfdf, "fr": TransferFrame(hdr, tfdf, _h_opt(p, "iz"), _h_opt(p, "ocf"), _h_opt(p, "fecf"))}


def _h_frame_decode(p, raw):
    from spacepackets.uslp.frame import FrameType, VarFrameProperties
    props = VarFrameProperties(has_insert_zone=bool(_P(p, "iz_some")), insert_zone_len=_P(p, "iz") if _P(p, "iz_some") else None,
                               has_fecf=bool(_P(p, "fecf_some")), fecf_len=_P(p, "fecf") if _P(p, "fecf_some") else None,
                               truncated_frame_len=0)
    return TransferFrame.unpack(raw, FrameType.VARIABLE, props)


def _h_s1_tm(p):
    sub = _P(p, "sub")
    data = bytes(RequestId.from_pus_tc(_h_tc(p)).pack()) + (bytes([3]) if sub == 5 else b"")
    return PusTm(service=1, subservice=sub, timestamp=bytes(_P(p, "tslen")), source_data=data, apid=_P(p, "apid"),
                 seq_count=_P(p, "count"))


def _h_from_tm(p, tm):
    return Service1Tm.from_tm(tm, pus1.UnpackParams(_P(p, "tslen"), 1, 1))


def _h_scenario(name: str, p):
    """(setup() -> roots, act(roots) -> roots the call adds)"""
    kind = PDU_KINDS[_P(p, "kind")] if 0 <= _P(p, "kind") < 8 else None
    S: Dict[str, Any] = {}

    def reg(n, setup, act):
        S[n] = (setup, act)

    reg("reqid_from_sp_header", lambda: {"hdr": _h_hdr(p)}, lambda r: {"rid": RequestId.from_sp_header(r["hdr"])})
    reg("reqid_from_pus_tc", lambda: {"tc": _h_tc(p)}, lambda r: {"rid": RequestId.from_pus_tc(r["tc"])})

    def tc_and_rid():
        tc = _h_tc(p)
        return {"tc": tc, "rid": RequestId.from_pus_tc(tc)}
    reg("reqid_twice", tc_and_rid, lambda r: {"rid2": RequestId.from_pus_tc(r["tc"])})
    reg("reqid_then_tc_set", tc_and_rid, lambda r: _h_tc_set(r["tc"], p) or {})
    reg("tc_to_space_packet", lambda: {"tc": _h_tc(p)}, lambda r: {"sp": r["tc"].to_space_packet()})

    def tc_and_sp():
        tc = _h_tc(p)
        return {"tc": tc, "sp": tc.to_space_packet()}
    reg("sp_then_tc_set", tc_and_sp, lambda r: _h_tc_set(r["tc"], p) or {})
    reg("tm_to_space_packet", lambda: {"tm": _h_tm(p)}, lambda r: {"sp": r["tm"].to_space_packet()})

    def tm_and_sp():
        tm = _h_tm(p)
        return {"tm": tm, "sp": tm.to_space_packet()}
    reg("sp_then_tm_set", tm_and_sp, lambda r: _h_tm_set(r["tm"], p) or {})
    reg("tc_from_sp_header", lambda: {"hdr": _h_hdr(p)},
        lambda r: {"tc": PusTc.from_sp_header(r["hdr"], _P(p, "service"), _P(p, "subservice"), bytes(_P(p, "dlen")),
                                              _P(p, "source_id"), _P(p, "ack"))})
    reg("tc_from_composite",
        lambda: {"hdr": _h_hdr(p), "sec": PusTcDataFieldHeader(_P(p, "service"), _P(p, "subservice"), _P(p, "source_id"), _P(p, "ack"))},
        lambda r: {"tc": PusTc.from_composite_fields(r["hdr"], r["sec"], bytes(_P(p, "dlen")))})
    reg("service1_from_tc", lambda: {"tc": _h_tc(p)},
        lambda r: {"tm": getattr(pus1, _S1_CREATORS[_P(p, "sub")])(apid=_P(p, "apid2"), pus_tc=r["tc"], timestamp=bytes(_P(p, "tslen")))})

    def tc_and_vp():
        from spacepackets.ecss.pus_1_verification import VerificationParams
        tc = _h_tc(p)
        return {"tc": tc, "vp": VerificationParams(RequestId.from_pus_tc(tc))}
    reg("service1_with_params", tc_and_vp,
        lambda r: {"tm": Service1Tm(apid=_P(p, "apid2"), subservice=Subservice(_P(p, "sub")), timestamp=bytes(_P(p, "tslen")),
                                    verif_params=r["vp"])})

    def add_tc(r):
        from spacepackets.ecss.pus_verificator import PusVerificator  # noqa
        if not r["v"].add_tc(r["tc"]):
            raise SelfCheckFailure("PusVerificator.add_tc refuses the first telecommand")
        keys = list(r["v"].verif_dict)
        if len(keys) != 1:
            raise SelfCheckFailure(f"PusVerificator holds {len(keys)} entries after one add_tc")
        return {"key": keys[0]}

    def verif_setup():
        from spacepackets.ecss.pus_verificator import PusVerificator
        return {"v": PusVerificator(), "tc": _h_tc(p)}
    reg("verificator_add_tc", verif_setup, add_tc)
    def tc_and_raw():
        tc = _h_tc(p)
        return {"tc": tc, "raw": bytes(tc.pack())}        # pack() fills the telecommand's crc16 cache: part of the setup
    reg("tc_unpack", tc_and_raw, lambda r: {"dec": PusTc.unpack(r["raw"])})
    if kind is not None:
        def ctor_setup():
            r = {"conf": _h_conf(p)}
            r.update(_h_caller_objs(kind, p))
            return r
        reg("pdu_ctor", ctor_setup, lambda r: {"pdu": _h_build_pdu(kind, p, r)})

        def conf_scalar(r):
            n, e = _CONF_SCALARS[_P(p, "attr")]
            setattr(r["conf"], n, e(_P(p, "v")))
            return {}
        reg("pdu_then_conf_scalar", lambda: _h_conf_objs_pdu(kind, p), conf_scalar)

        def conf_field(r):
            getattr(r["conf"], _CONF_FIELDS[_P(p, "attr")]).value = _P(p, "v")
            return {}
        reg("pdu_then_conf_field", lambda: _h_conf_objs_pdu(kind, p), conf_field)
        def second_pdu(r):
            k2 = PDU_KINDS[_P(p, "kind2")]
            r2 = {"conf": r["conf"]}
            r2.update(_h_caller_objs(k2, p))          # parameter objects of its own
            return {"pdu2": _h_build_pdu(k2, p, r2)}
        reg("two_pdus_one_conf", lambda: _h_conf_objs_pdu(kind, p), second_pdu)

        def holder_setup():
            from spacepackets.cfdp.pdu.helper import PduHolder
            r = _h_conf_objs_pdu(kind, p)
            r["holder"] = PduHolder(None)
            return r

        def holder_act(r):
            r["holder"].pdu = r["pdu"]
            return {}
        reg("holder_assign", holder_setup, holder_act)
        reg("pdu_unpack", lambda: _h_conf_objs_pdu(kind, p), lambda r: {"dec": type(r["pdu"]).unpack(bytes(r["pdu"].pack()))})
    reg("finished_success_pdu", lambda: {"conf": _h_conf(p)}, lambda r: {"pdu": FinishedPdu.success_pdu(r["conf"])})
    mk = [FinishedParams.success_params, FinishedParams.empty, FileDataParams.empty, PduConfig.default][min(_P(p, "which"), 3)]
    reg("factory_twice", lambda: {"a": mk()}, lambda r: {"b": mk()})

    def fin_set(r):
        which, v = _P(p, "set"), _P(p, "v")
        if which == 0:
            r["pdu"].condition_code = ConditionCode(v)
            return {}
        if which == 1:
            arg = None if v == 0 else EntityIdTlv(bytes([9]) * v)
            r["pdu"].fault_location = arg
            return {} if arg is None else {"arg": arg}
        if which == 3:
            r["pdu"].file_store_responses = None          # the setter stores a new empty list
            return {}
        arg = _h_resps(v)
        r["pdu"].file_store_responses = arg
        return {"arg": arg}
    reg("finished_set", lambda: _h_conf_objs_pdu("finished", p), fin_set)

    def fd_set(r):
        which, v = _P(p, "set"), _P(p, "v")
        if which == 0:
            r["pdu"].file_data = bytes(v)
            return {}
        arg = None if v == 0 else SegmentMetadata(RecordContinuationState(0), bytes(v))
        r["pdu"].segment_metadata = arg
        return {} if arg is None else {"arg": arg}
    reg("filedata_set", lambda: _h_conf_objs_pdu("filedata", p), fd_set)
    # ---- USLP frames, telemetry factories, PDU-level setters (DESIGN 13.10, second round) ----
    reg("uslp_frame_ctor", lambda: {"hdr": _h_uslp_hdr(p), "tfdf": _h_tfdf(p)},
        lambda r: {"fr": TransferFrame(r["hdr"], r["tfdf"], _h_opt(p, "iz"), _h_opt(p, "ocf"), _h_opt(p, "fecf"))})
    reg("uslp_set_frame_len", lambda: _h_hdr_tfdf_frame(p), lambda r: r["fr"].set_frame_len_in_header() or {})

    def frame_and_dec():
        from spacepackets.uslp.frame import FrameType
        r = _h_hdr_tfdf_frame(p)
        r["fr"].set_frame_len_in_header()
        r["raw"] = bytes(r["fr"].pack(frame_type=FrameType.VARIABLE))
        r["dec"] = _h_frame_decode(p, r["raw"])
        return r
    reg("uslp_frame_unpack", frame_and_dec, lambda r: {"dec2": _h_frame_decode(p, r["raw"])})
    reg("tm_from_composite",
        lambda: {"hdr": _h_hdr(p), "sec": PusTmSecondaryHeader(_P(p, "service"), _P(p, "subservice"), bytes(_P(p, "tslen")), 0)},
        lambda r: {"tm": PusTm.from_composite_fields(r["hdr"], r["sec"], bytes(_P(p, "dlen")))})
    reg("service1_from_tm", lambda: {"tm": _h_s1_tm(p)}, lambda r: {"rep": _h_from_tm(p, r["tm"])})

    def tm_and_rep():
        tm = _h_s1_tm(p)
        return {"tm": tm, "rep": _h_from_tm(p, tm)}
    reg("service1_from_tm_twice", tm_and_rep, lambda r: {"rep2": _h_from_tm(p, r["tm"])})
    reg("service1_default_twice",
        lambda: {"a": Service1Tm(apid=_P(p, "apid"), subservice=Subservice(_P(p, "sub")), timestamp=bytes(_P(p, "tslen")))},
        lambda r: {"b": Service1Tm(apid=_P(p, "apid2"), subservice=Subservice(_P(p, "sub")), timestamp=bytes(_P(p, "tslen")))})
    if kind is not None:
        def flag_set(r):
            which, v, w2, pdu = _P(p, "set"), _P(p, "v"), _P(p, "w2"), r["pdu"]
            if which == 0:
                pdu.file_flag = LargeFileFlag(v)                      # Keep Alive, NAK: the classes that define the setter
                return {}
            if which == 1:
                n, e = _HDR_SCALARS[_P(p, "attr")]
                setattr(pdu.pdu_header, n, e(v))
                return {}
            if which == 2:
                a, b = UnsignedByteField(v, w2), UnsignedByteField(v + 1, w2)
                pdu.pdu_header.set_entity_ids(a, b)
                return {"arg": a, "arg2": b}
            if which == 3:
                q = UnsignedByteField(v, w2)
                pdu.pdu_header.transaction_seq_num = q
                return {"arg": q}
            getattr(pdu, _CONF_FIELDS[_P(p, "attr")]).value = v
            return {}
        reg("pdu_flag_set", lambda: _h_conf_objs_pdu(kind, p), flag_set)
    return S.get(name)


def _is_object(x) -> bool:
    """a mutable library object: an instance of a class of the package (not an enum member) or a list"""
    import enum
    if x is None or isinstance(x, (bool, int, float, str, bytes, bytearray, tuple, enum.Enum)):
        return False
    return isinstance(x, list) or type(x).__module__.split(".")[0] == "spacepackets"


def _eval_path(roots: Dict[str, Any], path: str):
    segs = path.split(".")
    if segs[0] not in roots:
        return None
    x = roots[segs[0]]
    for s in segs[1:]:
        if not _is_object(x):
            return None
        if isinstance(x, list):
            # `lst[i]` is written as the path segment `i`
            if not s.isdigit() or int(s) >= len(x):
                return None
            x = x[int(s)]
            continue
        try:
            x = getattr(x, s)
        except AttributeError:
            return None
    return x if _is_object(x) else None


def _hview(x):
    """everything readable through an object (public API), as a value"""
    import enum
    from spacepackets.cfdp.pdu.helper import PduHolder
    from spacepackets.cfdp.pdu.header import PduHeader
    from spacepackets.cfdp.pdu.file_directive import FileDirectivePduBase
    from spacepackets.ccsds.spacepacket import SpacePacket
    if x is None or isinstance(x, (bool, str)):
        return x
    if isinstance(x, enum.Enum) or isinstance(x, int):
        return int(x)
    if isinstance(x, (bytes, bytearray)):
        return hx(bytes(x))
    if isinstance(x, (list, tuple)):
        return [_hview(e) for e in x]
    if isinstance(x, PacketId):
        return _v_pid(x)
    if isinstance(x, PacketSeqCtrl):
        return _v_psc(x)
    if isinstance(x, SpacePacketHeader):
        return _v_sph(x)
    if isinstance(x, PusTcDataFieldHeader):
        return [int(x.service), int(x.subservice), int(x.source_id), int(x.ack_flags)]
    if isinstance(x, PusTmSecondaryHeader):
        return [int(x.service), int(x.subservice), int(x.message_counter), int(x.dest_id), int(x.spacecraft_time_ref), hx(x.timestamp)]
    if isinstance(x, PusTc):
        return [_v_sph(x.sp_header), _hview(x.pus_tc_sec_header), hx(x.app_data), x.crc16 is None]
    if isinstance(x, PusTm):
        return [_v_sph(x.sp_header), _hview(x.pus_tm_sec_header), hx(x.tm_data), x.crc16 is None]
    if isinstance(x, SpacePacket):
        return [_v_sph(x.sp_header), _hview(x.sec_header), _hview(x.user_data)]
    if isinstance(x, RequestId):
        return _v_reqid(x)
    if isinstance(x, Service1Tm):
        return [_v_reqid(x.tc_req_id), _hview(x.pus_tm)]
    if type(x).__name__ == "VerificationParams":
        return [_v_reqid(x.req_id), x.step_id is None, x.failure_notice is None]
    if isinstance(x, UnsignedByteField):
        return _v_field(x)
    if isinstance(x, PduConfig):
        return _v_conf(x)
    if isinstance(x, PduHeader):
        return [_v_conf(x.pdu_conf), int(x.pdu_type), int(x.segment_metadata_flag), int(x.pdu_data_field_len)]
    if isinstance(x, FileDirectivePduBase):
        return [_hview(x.pdu_header), int(x.directive_type)]
    if isinstance(x, FinishedParams):
        return _v_finparams(x)
    if isinstance(x, FileDataParams):
        return _v_fdparams(x)
    if isinstance(x, SegmentMetadata):
        return [int(x.record_cont_state), hx(x.metadata)]
    if isinstance(x, MetadataParams):
        return _snap(x)
    if isinstance(x, PduHolder):
        return _hview(x.pdu)
    if isinstance(x, (AckPdu, PromptPdu, KeepAlivePdu, NakPdu, EofPdu, FinishedPdu, MetadataPdu, FileDataPdu)):
        try:
            raw = hx(bytes(x.pack()))
        except Exception as e:  # noqa
            raw = "pack: " + exc_category(e)
        extra: List[Any] = []
        if isinstance(x, FinishedPdu):
            extra = [_v_finparams(x.finished_params)]
        elif isinstance(x, FileDataPdu):
            sm = x.segment_metadata
            extra = [hx(x.file_data), int(x.offset), None if sm is None else [int(sm.record_cont_state), hx(sm.metadata)]]
        elif isinstance(x, MetadataPdu):
            extra = [_snap(x.params), None if x.options is None else [_snap_tlv(t) for t in x.options]]
        elif isinstance(x, NakPdu):
            extra = [_hview(x.segment_requests)]
        elif isinstance(x, EofPdu):
            extra = [_snap_tlv(x.fault_location)]
        return [type(x).__name__, raw, _hview(x.pdu_header), int(x.packet_len)] + extra
    if isinstance(x, (PrimaryHeader, TruncatedPrimaryHeader)):
        return ["uslphdr", c17._header_fields(x)]
    if isinstance(x, TransferFrameDataField):
        return ["tfdf", c17._tfdf_fields(x)]
    if isinstance(x, TransferFrame):
        return ["frame", _hview(x.header), _hview(x.tfdf), _hview(x.insert_zone), _hview(x.op_ctrl_field), _hview(x.fecf)]
    if isinstance(x, PacketFieldEnum):
        return ["enum", int(x.pfc), int(x.val)]
    if isinstance(x, FailureNotice):
        return ["failure", _hview(x.code), hx(bytes(x.data))]
    t = _snap_tlv(x)
    return t


def op_heap_alias(a):
    p, paths = a["p"], list(a["paths"])
    scn = _h_scenario(a["scenario"], p)
    if scn is None:
        raise core.InfraError(f"C11: no alias scenario named {a['scenario']!r} for kind {p.get('kind')!r}")
    setup, act = scn
    roots = _build(setup, "scenario setup (constructors)")
    before = {q: _eval_path(roots, q) for q in paths}
    before = {q: o for q, o in before.items() if o is not None}
    snap0 = {q: _hview(o) for q, o in before.items()}
    added = act(roots)
    roots = dict(roots)
    roots.update(added)
    obs = {q: _eval_path(roots, q) for q in paths}
    obs = {q: o for q, o in obs.items() if o is not None}
    written = sorted(q for q, o in before.items() if _hview(o) != snap0[q])
    by_id: Dict[int, List[str]] = {}
    for q, o in obs.items():
        by_id.setdefault(id(o), []).append(q)
    classes = sorted(sorted(c) for c in by_id.values())
    claim = a.get("claim") or {"separated": [], "may_write": [], "objects": []}
    broken = []
    for pair in claim["separated"]:
        x, y = pair.split("|")
        if x in obs and y in obs and obs[x] is obs[y]:
            broken.append(pair)
    unexpected = sorted(set(written) - set(claim["may_write"]))
    # information: the model's shared pairs that are two objects here, predicted writes that did not happen
    objs = [q for q in claim["objects"] if q in obs]
    sep = set(claim["separated"])
    shared_pred = [f"{x}|{y}" for i, x in enumerate(objs) for y in objs[i + 1:] if f"{x}|{y}" not in sep and f"{y}|{x}" not in sep]
    more = [pr for pr in shared_pred if obs[pr.split("|")[0]] is not obs[pr.split("|")[1]]]
    fewer = sorted(set(claim["may_write"]) - set(written))
    ALIAS_INFO["lines"] += 1
    ALIAS_INFO["shared_pairs_predicted"] += len(shared_pred)
    ALIAS_INFO["shared_pairs_observed"] += len(shared_pred) - len(more)
    ALIAS_INFO["writes_predicted"] += len(claim["may_write"])
    ALIAS_INFO["writes_observed"] += len(written)
    for pr in more:
        k = f"{a['scenario']}: {pr}"
        ALIAS_INFO["more_separated"][k] = ALIAS_INFO["more_separated"].get(k, 0) + 1
    ALIAS_INFO["last"] = {"scenario": a["scenario"], "classes": classes, "written": written, "more_separated": sorted(more), "fewer_writes": fewer}
    # exactly the keys of the model op (a replay file compares every key)
    return {"objects": sorted(obs), "claim_ok": True, "separated_broken": sorted(broken), "unexpected_writes": unexpected}


OPS = {"c11_tc": _seq_op("tc"), "c11_tm": _seq_op("tm"), "c11_nak": _seq_op("nak"), "c11_ka": _seq_op("ka"),
       "c11_fd": _seq_op("fd"), "c11_frame": _seq_op("frame"), "c11_eof": _seq_op("eof"), "c11_fin": _seq_op("finished"),
       "c11_md": _seq_op("metadata"), "c11_selfcheck": op_selfcheck,
       "c11_inputs": op_inputs, "c11_conf": op_conf, "heap_alias": op_heap_alias}


# --------------------------------------------------------------------------------------------
# generators
# --------------------------------------------------------------------------------------------
def rdata(rng: random.Random, n: int):
    """small strings as hex (random content), long ones as a fill pattern (short op lines)"""
    return hx(rbytes(rng, n)) if n <= 300 else fill(n, rng.randint(0, 255))


SMALL_LENS = [0, 0, 1, 2, 3, 7, 8, 16, 63, 64, 255, 256]


class Gen:
    """per kind: initial arguments, one random step, a small pool of steps for exhaustive short sequences,
    and boundary sequences around the largest accepted argument"""

    def init(self, rng, **fix): raise NotImplementedError
    def step(self, rng, a, big: float): raise NotImplementedError
    def pool(self, rng, a) -> List[Dict[str, Any]]: raise NotImplementedError
    def boundary(self, rng, a) -> List[List[Dict[str, Any]]]: return []


class TcGen(Gen):
    MAX = 65535 - 6          # data_len = 5 + n + 1 <= 65535

    def init(self, rng, **fix):
        a = c02.rand_args(rng)
        a["via_unpack"] = fix.get("via", rng.random() < 0.3)
        return a

    def step(self, rng, a, big):
        r = rng.random()
        if r < big:
            n = rng.choice([self.MAX, self.MAX + 1, self.MAX - 1, 65535, 65536, 70000])
        else:
            n = rng.choice(SMALL_LENS + [rng.randint(0, 300)])
        return {"data": rdata(rng, n)}

    def pool(self, rng, a):
        return [{"data": ""}, {"data": hx(rbytes(rng, 1))}, {"data": hx(rbytes(rng, 9))}, {"data": fill(self.MAX + 1)},
                {"data": hx(rbytes(rng, 256))}]

    def boundary(self, rng, a):
        M = self.MAX
        return [[{"data": fill(M, 0xA5)}, {"data": fill(M + 1)}, {"data": "01"}],
                [{"data": fill(M + 1)}, {"data": fill(M - 1, 1)}, {"data": fill(70000)}, {"data": fill(M)}],
                [{"data": fill(65536)}, {"data": ""}]]


class TmGen(Gen):
    def mx(self, a): return 65535 - 8 - len(unhx(a["timestamp"]))

    def init(self, rng, **fix):
        a = c03.rand_args(rng)
        a["via_unpack"] = fix.get("via", rng.random() < 0.3)
        return a

    def step(self, rng, a, big):
        M = self.mx(a)
        if rng.random() < big:
            n = rng.choice([M, M + 1, M - 1, 65535, 65536, 70000])
        else:
            n = rng.choice(SMALL_LENS + [rng.randint(0, 300)])
        return {"data": rdata(rng, n)}

    def pool(self, rng, a):
        return [{"data": ""}, {"data": hx(rbytes(rng, 1))}, {"data": hx(rbytes(rng, 9))}, {"data": fill(self.mx(a) + 1)},
                {"data": hx(rbytes(rng, 256))}]

    def boundary(self, rng, a):
        M = self.mx(a)
        return [[{"data": fill(M, 0x5A)}, {"data": fill(M + 1)}, {"data": "01"}],
                [{"data": fill(M + 1)}, {"data": fill(M - 1, 1)}, {"data": fill(70000)}, {"data": fill(M)}]]


def nak_max(large: int, crc: int) -> int:
    per, base = (16, 16) if large else (8, 8)
    return (65535 - 1 - base - (2 if crc else 0)) // per


class NakGen(Gen):
    def init(self, rng, **fix):
        a = c06.rand_conf(rng, **{k: v for k, v in fix.items() if k in ("crc", "large", "idw", "sw")})
        a.update(start=c06.fss_val(rng, a["large"]), end=c06.fss_val(rng, a["large"]),
                 segs=rng.choice([None, [], c06.rand_segs(rng, a["large"], rng.randint(1, 5))]),
                 via_unpack=fix.get("via", rng.random() < 0.3))
        return a

    def seg_step(self, rng, n: int, large_vals: bool):
        if n <= 12:
            return {"set": "segs", "segs": c06.rand_segs(rng, 1 if large_vals else 0, n)}
        return {"set": "segs", "segs": {"fill": [rng.randint(0, U32), rng.randint(0, U32)], "n": n}}

    def step(self, rng, a, big):
        r = rng.random()
        if r < 0.3:
            return {"set": "large", "large": rng.randint(0, 1)}
        if r < 0.3 + big:
            m0, m1 = nak_max(0, a["crc"]), nak_max(1, a["crc"])
            return self.seg_step(rng, rng.choice([m1, m1 + 1, m0, m0 + 1, m0 - 1, 9000]), False)
        if r < 0.4 + big:
            return {"set": "segs", "segs": None}
        return self.seg_step(rng, rng.choice([0, 1, 1, 2, 3, 5, 12]), rng.random() < 0.15)

    def pool(self, rng, a):
        return [{"set": "large", "large": 0}, {"set": "large", "large": 1}, {"set": "segs", "segs": []},
                self.seg_step(rng, 2, False), self.seg_step(rng, nak_max(0, a["crc"]) + 1, False)]

    def boundary(self, rng, a):
        m0, m1 = nak_max(0, a["crc"]), nak_max(1, a["crc"])
        L0, L1 = {"set": "large", "large": 0}, {"set": "large", "large": 1}
        return [[L0, self.seg_step(rng, m0, False), L1, self.seg_step(rng, 1, False), L1],
                [L1, self.seg_step(rng, m1, False), self.seg_step(rng, m1 + 1, False), L0, self.seg_step(rng, m0 + 1, False)],
                [L0, self.seg_step(rng, m1 + 1, False), L1, {"set": "segs", "segs": None}, L1]]


class KaGen(Gen):
    def init(self, rng, **fix):
        a = c06.rand_conf(rng, **{k: v for k, v in fix.items() if k in ("crc", "large", "idw", "sw")})
        a.update(progress=c06.fss_val(rng, a["large"] if rng.random() < 0.8 else 1),
                 via_unpack=fix.get("via", rng.random() < 0.3))
        if a["via_unpack"] and not a["large"]:
            a["progress"] &= U32
        return a

    def step(self, rng, a, big): return {"large": rng.randint(0, 1)}
    def pool(self, rng, a): return [{"large": 0}, {"large": 1}]


class FdGen(Gen):
    def mx(self, a, meta_len: Optional[int]) -> int:
        return 65535 - (8 if a["large"] else 4) - (2 if a["crc"] else 0) - (0 if meta_len is None else 1 + meta_len)

    def init(self, rng, **fix):
        conf = c07.rand_conf(rng, **{k: v for k, v in fix.items() if k in ("crc", "large", "idw", "seqw")})
        a = c07.rand_args(rng, conf)
        a["via_unpack"] = fix.get("via", rng.random() < 0.3)
        return a

    def meta_step(self, rng, ln: Optional[int]):
        if ln is None:
            return {"set": "meta", "meta": None, "state": None}
        return {"set": "meta", "meta": hx(rbytes(rng, ln)), "state": rng.randint(0, 3)}

    def step(self, rng, a, big):
        r = rng.random()
        if r < 0.5:
            if rng.random() < big:
                M = self.mx(a, None)
                n = rng.choice([M, M + 1, M - 1, M - 64, M - 30, 65535, 65536, 70000])
            else:
                n = rng.choice(SMALL_LENS + [rng.randint(0, 300)])
            return {"set": "data", "data": rdata(rng, n)}
        if r < 0.65:
            return self.meta_step(rng, None)
        if r < 0.65 + big / 2:
            return self.meta_step(rng, rng.choice([64, 65, 100, 255]))      # beyond 63: stored, pack() refuses
        return self.meta_step(rng, rng.choice(c07.META_LENS + [rng.randint(0, 63)]))

    def pool(self, rng, a):
        return [{"set": "data", "data": ""}, {"set": "data", "data": hx(rbytes(rng, 5))},
                {"set": "data", "data": fill(self.mx(a, None) + 1)}, self.meta_step(rng, None), self.meta_step(rng, 0),
                self.meta_step(rng, 7)]

    def boundary(self, rng, a):
        M = self.mx(a, None)
        D = lambda n, b=0: {"set": "data", "data": fill(n, b)}  # noqa
        return [[D(M, 0xC3), D(M + 1), self.meta_step(rng, 0), self.meta_step(rng, None), D(3)],
                [self.meta_step(rng, 63), D(M - 64, 7), D(M - 63), self.meta_step(rng, None), D(M - 63), self.meta_step(rng, 1)],
                [D(70000), self.meta_step(rng, 5), D(M - 6), D(M - 5), self.meta_step(rng, 6), self.meta_step(rng, 4)]]


class FrameGen(Gen):
    def init(self, rng, **fix):
        rules = fix.get("rules", rng.randint(0, 7))
        truncated = fix.get("truncated", rules in c17.VP_RULES and rng.random() < 0.25)
        ocf = False if truncated else fix.get("ocf", rng.random() < 0.4)
        f, _ft = c17.wf_frame(rng, rules, truncated, rng.choice([None, None, 0, 1, 5]), ocf, rng.choice([None, 2, 4]),
                              rng.choice([0, 1, 2, 3, 9, 40]))
        if f["hdr"]["kind"] == "primary" and rng.random() < 0.5:
            f["hdr"]["frame_len"] = rng.randint(0, 65535)      # not yet set by the caller
        f["via_unpack"] = False
        return f

    def mx(self, a) -> int:
        hl = 1 if a["tfdf"]["fhp"] is None else 3
        return USLP_TFDF_MAX_SIZE - 2 * hl

    def step(self, rng, a, big):
        r = rng.random()
        if r < 0.4:
            return {"set": "frame_len"}
        if r < 0.4 + big:
            M = self.mx(a)
            return {"set": "tfdz", "tfdz": rdata(rng, rng.choice([M, M + 1, M - 1, M - 8, M - 16, 65536, 70000]))}
        return {"set": "tfdz", "tfdz": rdata(rng, rng.choice(SMALL_LENS + [rng.randint(0, 300)]))}

    def pool(self, rng, a):
        return [{"set": "frame_len"}, {"set": "tfdz", "tfdz": ""}, {"set": "tfdz", "tfdz": hx(rbytes(rng, 3))},
                {"set": "tfdz", "tfdz": fill(self.mx(a) + 1)}, {"set": "tfdz", "tfdz": hx(rbytes(rng, 300))}]

    def len_boundary(self, a):
        """data zones that make the whole frame exactly 65535..65538 octets long: the 16-bit frame length field
        holds len() - 1, so 65536 octets is the largest frame whose length can be set"""
        if a["hdr"]["kind"] != "primary":
            return []
        hl = 1 if a["tfdf"]["fhp"] is None else 3
        fixed = 7 + a["hdr"]["vcf_len"] + hl + sum(len(a[k]) // 2 for k in ("iz", "ocf", "fecf") if a[k] is not None)
        S = {"set": "frame_len"}
        seq = []
        for total in (65536, 65537, 65535, 65538):
            n = total - fixed
            if 0 <= n <= self.mx(a):
                seq += [{"set": "tfdz", "tfdz": fill(n, total & 0xFF)}, S]
        return [seq] if seq else []

    def boundary(self, rng, a):
        M = self.mx(a)
        T = lambda n, b=0: {"set": "tfdz", "tfdz": fill(n, b)}  # noqa
        S = {"set": "frame_len"}
        return [[T(M, 0x3C), S, T(M + 1), S, T(2), S], [T(70000), S, T(M - 20), S, T(M - 3), S, T(1)],
                [S, T(M - 8), S, T(M - 12), S]]


def _fault_arg(rng):
    # entity IDs have 1, 2, 4 or 8 octets (EntityIdTlv.__eq__ converts them to integer fields of these widths)
    return rng.choice([None, hx(c6v.rand_fault(rng))])


BIG_RESP = {"action": 0, "status": 0, "first": hx(b"a" * 200), "second": "", "msg": hx(bytes(40))}      # a 245-octet TLV
BIG_OPT = {"kind": "generic", "type": 2, "value": hx(bytes([3]) * 255)}                                 # a 257-octet TLV


class EofGen(Gen):
    def init(self, rng, **fix):
        a = c06.rand_conf(rng, **{k: v for k, v in fix.items() if k in ("crc", "large", "idw", "sw")})
        a.update(checksum=hx(c6v.rand_checksum(rng)), size=c06.fss_val(rng, a["large"]), fault=_fault_arg(rng),
                 cond=rng.choice(c06.COND_MEMBERS), via_unpack=fix.get("via", rng.random() < 0.3))
        return a

    def step(self, rng, a, big): return {"set": "fault", "v": _fault_arg(rng)}

    def pool(self, rng, a):
        return [{"set": "fault", "v": None}, {"set": "fault", "v": "07"}, {"set": "fault", "v": hx(c6v.rand_fault(rng, 8))},
                {"set": "fault", "v": hx(c6v.rand_fault(rng, 2))}]


class FinishedGen(Gen):
    def init(self, rng, **fix):
        a = c06.rand_conf(rng, **{k: v for k, v in fix.items() if k in ("crc", "large", "idw", "sw")})
        a.update(cond=rng.choice(c06.COND_MEMBERS), delivery=rng.randint(0, 1), status=rng.randint(0, 3),
                 responses=rng.choice([[], [], [c6v.rand_resp(rng) for _ in range(rng.randint(1, 3))]]), fault=_fault_arg(rng),
                 via_unpack=fix.get("via", rng.random() < 0.3))
        if a["via_unpack"] and a["cond"] in c6v.NO_FAULT_CONDS:
            a["fault"] = None          # a fault location that is not packed cannot come back from the decoder
        return a

    def step(self, rng, a, big):
        r = rng.random()
        if r < 0.3:
            return {"set": "fault", "v": _fault_arg(rng)}
        if r < 0.5:
            return {"set": "cond", "v": rng.choice(c06.COND_MEMBERS + [0, 0, 11, 11])}
        if r < 0.5 + big:
            return {"set": "responses", "v": {"fill": BIG_RESP, "n": rng.choice([250, 267, 268, 300])}}
        return {"set": "responses", "v": rng.choice([None, [], [c6v.rand_resp(rng) for _ in range(rng.randint(1, 4))]])}

    def pool(self, rng, a):
        return [{"set": "fault", "v": None}, {"set": "fault", "v": "0102"}, {"set": "cond", "v": 0}, {"set": "cond", "v": 4},
                {"set": "responses", "v": []}, {"set": "responses", "v": [c6v.rand_resp(rng)]},
                {"set": "responses", "v": {"fill": BIG_RESP, "n": 300}}]

    def boundary(self, rng, a):
        R = lambda n, then=(): {"set": "responses", "v": {"fill": BIG_RESP, "n": n, "then": list(then)}}  # noqa
        F = {"set": "fault", "v": hx(bytes([9]) * 8)}            # 10 octets
        C = lambda c: {"set": "cond", "v": c}  # noqa
        # 267 x 245 + 108 octets of responses: data field 65525 (65527 with CRC) - a fault location of 10 octets
        # fits exactly without CRC and is refused with CRC, whichever setter makes it count
        near = c6v.resp_of_len(rng, 108)
        return [[R(267), C(4), F, R(268), C(0), F, C(4), {"set": "responses", "v": None}, F],
                [C(0), F, R(267, [near]), C(4), C(11), {"set": "fault", "v": None}, C(4), F, R(267), F, R(267, [near]), C(0)]]


def _rand_opts(rng):
    if rng.random() < 0.3:
        return None
    return c6v.rand_options(rng, rng.randint(0, 3))


def _rand_name(rng):
    if rng.random() < 0.15:
        return None
    return hx(rng.choice([c6v.rand_name(rng), c6v.name_exact(rng, 255), b"a", b""]))


class MetadataGen(Gen):
    def init(self, rng, **fix):
        a = c06.rand_conf(rng, **{k: v for k, v in fix.items() if k in ("crc", "large", "idw", "sw")})
        a.update(closure=bool(rng.randint(0, 1)), ctype=rng.choice(c6v.CHECKSUM_TYPES), size=c06.fss_val(rng, a["large"]),
                 src=_rand_name(rng), dst=_rand_name(rng), options=_rand_opts(rng), via_unpack=fix.get("via", rng.random() < 0.3))
        return a

    def step(self, rng, a, big):
        r = rng.random()
        if r < 0.3:
            return {"set": "src", "v": _rand_name(rng) if rng.random() > big else hx(b"x" * 256)}
        if r < 0.6:
            return {"set": "dst", "v": _rand_name(rng) if rng.random() > big else hx(b"y" * 300)}
        if r < 0.6 + big:
            return {"set": "options", "v": {"fill": BIG_OPT, "n": rng.choice([253, 254, 255, 256, 300])}}
        return {"set": "options", "v": _rand_opts(rng)}

    def pool(self, rng, a):
        return [{"set": "src", "v": None}, {"set": "src", "v": hx(b"ab")}, {"set": "dst", "v": hx(b"c" * 255)},
                {"set": "dst", "v": hx(b"d" * 256)}, {"set": "options", "v": None},
                {"set": "options", "v": [c6v.rand_option(rng)]}, {"set": "options", "v": {"fill": BIG_OPT, "n": 256}}]

    def boundary(self, rng, a):
        O = lambda n: {"set": "options", "v": {"fill": BIG_OPT, "n": n}}  # noqa
        return [[{"set": "src", "v": hx(b"s")}, {"set": "dst", "v": hx(b"d")}, O(254), {"set": "dst", "v": hx(b"y" * 255)},
                 {"set": "src", "v": hx(b"x" * 255)}, {"set": "src", "v": hx(b"x" * 200)}, O(255), O(253),
                 {"set": "dst", "v": hx(b"y" * 255)}, {"set": "src", "v": hx(b"z" * 255)}, O(254), {"set": "src", "v": None}]]


GENS: Dict[str, Gen] = {"tc": TcGen(), "tm": TmGen(), "nak": NakGen(), "ka": KaGen(), "fd": FdGen(), "frame": FrameGen(),
                        "eof": EofGen(), "finished": FinishedGen(), "metadata": MetadataGen()}


# every ordered pair of distinct entity-ID widths as consecutive elements of one closed walk
WIDTH_CYCLE = [1, 2, 1, 4, 1, 8, 2, 4, 2, 8, 4, 8]
WIDE_CYCLE = [2, 4, 2, 8, 4, 8]           # the same for values that need two octets


def width_walk(rng, cycle=WIDTH_CYCLE) -> List[int]:
    k = rng.randrange(len(cycle))
    return [cycle[(k + i) % len(cycle)] for i in range(len(cycle) + 1)]


def idhex(v: int, w: int) -> str:
    return hx(v.to_bytes(w, "big"))


def recoded_id_walks(rng) -> List[List[str]]:
    """sequences of entity IDs that all hold the same number (`EntityIdTlv.__eq__` compares the number only) in
    another width each time: a one-octet value through every ordered pair of 1/2/4/8 octets, a two-octet value
    through every ordered pair of 2/4/8"""
    v1 = rng.choice([0, 1, 5, 0x7F, 0xFF, rng.randint(0, 255)])
    v2 = rng.choice([0x0100, 0xFFFF, rng.randint(256, 65535)])
    return [[idhex(v1, w) for w in width_walk(rng)], [idhex(v2, w) for w in width_walk(rng, WIDE_CYCLE)]]


def _has_big_fill(v) -> bool:
    if isinstance(v, dict):
        return ("fill" in v and v.get("n", 0) > 200) or any(_has_big_fill(x) for x in v.values())
    return isinstance(v, list) and any(_has_big_fill(x) for x in v)


def seq_case(name: str, a: Dict[str, Any], steps: List[Dict[str, Any]], tag: str) -> Case:
    kind = KINDS[name]
    op = dict(a)
    op["op"] = kind.op
    op["steps"] = steps
    if not kind.modelled:
        op["kind"] = name     # implementation-side only kinds (none at present)
    return Case(op, "valid", tag=f"{name}-{tag}")


def fixes_for(name: str, thorough: bool) -> List[Dict[str, Any]]:
    """the configurations every generator family is run over"""
    if name in ("tc", "tm"):
        return [{"via": False}, {"via": True}]
    if name == "frame":
        out = [{"rules": r, "truncated": False} for r in range(8)] + [{"rules": r, "truncated": True} for r in c17.VP_RULES]
        return out if thorough else out[::2] + [out[-1]]
    out = []
    for crc in (0, 1):
        for large in (0, 1):
            for via in ((False, True) if thorough else (crc == large,)):
                out.append({"crc": crc, "large": large, "via": via})
    return out


# ---- alias-graph scenarios: access paths and parameter variants ----
def _hdr_paths(n):
    return [n, f"{n}.packet_id", f"{n}.packet_seq_control"]


def _rid_paths(n):
    return [n, f"{n}.tc_packet_id", f"{n}.tc_psc"]


TC_PATHS = ["tc", "tc.pus_tc_sec_header", "tc.packet_id", "tc.packet_seq_control"] + _hdr_paths("tc.sp_header")
TM_PATHS = ["tm", "tm.pus_tm_sec_header", "tm.packet_id", "tm.packet_seq_control", "tm.space_packet_header"] + _hdr_paths("tm.sp_header")
SP_PATHS = ["sp"] + _hdr_paths("sp.sp_header")
S1_PATHS = (["tm", "tm.pus_tm", "tm.packet_id", "tm.packet_seq_control"] + _rid_paths("tm.tc_req_id") + _hdr_paths("tm.sp_header")
            + _hdr_paths("tm.pus_tm.sp_header"))


USLP_PATHS = ["hdr", "tfdf", "fr", "fr.header", "fr.tfdf"]


def _rep_paths(n):
    return ([n, f"{n}.pus_tm", f"{n}.pus_tm.pus_tm_sec_header", f"{n}.packet_id", f"{n}.packet_seq_control", f"{n}.step_id"]
            + _rid_paths(f"{n}.tc_req_id") + _hdr_paths(f"{n}.sp_header") + _hdr_paths(f"{n}.pus_tm.sp_header"))


def _conf_paths(n):
    return [n, f"{n}.source_entity_id", f"{n}.dest_entity_id", f"{n}.transaction_seq_num"]


def _pdu_paths(n, kind):
    out = [n, f"{n}.pdu_header", f"{n}.source_entity_id", f"{n}.dest_entity_id", f"{n}.transaction_seq_num",
           f"{n}.pdu_header.source_entity_id"] + _conf_paths(f"{n}.pdu_header.pdu_conf")
    if kind != "filedata":
        out += [f"{n}.pdu_file_directive", f"{n}.pdu_file_directive.pdu_header", f"{n}.pdu_file_directive.pdu_conf"]
    out += {"nak": [f"{n}.segment_requests"], "eof": [f"{n}.fault_location"],
            "finished": [f"{n}.finished_params", f"{n}.file_store_responses", f"{n}.fault_location", f"{n}.file_store_responses.0",
                         f"{n}.file_store_responses.1"],
            "metadata": [f"{n}.params", f"{n}.options", f"{n}.options.0"], "filedata": [f"{n}.segment_metadata"]}.get(kind, [])
    return out


def _caller_paths(kind):
    return {"nak": ["segs"], "eof": ["fl"],
            "finished": ["params", "params.file_store_responses", "params.fault_location", "params.file_store_responses.0",
                         "params.file_store_responses.1"],
            "metadata": ["params", "options", "options.0"], "filedata": ["params", "params.segment_metadata"]}.get(kind, [])


def _alias_paths(name: str, kind: Optional[str], p) -> List[str]:
    cp = _conf_paths("conf") + _caller_paths(kind) + _pdu_paths("pdu", kind) if kind else []
    return {
        "reqid_from_sp_header": _hdr_paths("hdr") + _rid_paths("rid"),
        "reqid_from_pus_tc": TC_PATHS + _rid_paths("rid"),
        "reqid_twice": TC_PATHS + _rid_paths("rid") + _rid_paths("rid2"),
        "reqid_then_tc_set": TC_PATHS + _rid_paths("rid"),
        "tc_to_space_packet": TC_PATHS + SP_PATHS,
        "sp_then_tc_set": TC_PATHS + SP_PATHS,
        "tm_to_space_packet": TM_PATHS + SP_PATHS,
        "sp_then_tm_set": TM_PATHS + SP_PATHS,
        "tc_from_sp_header": _hdr_paths("hdr") + TC_PATHS,
        "tc_from_composite": _hdr_paths("hdr") + ["sec"] + TC_PATHS,
        "service1_from_tc": TC_PATHS + S1_PATHS,
        "verificator_add_tc": TC_PATHS + _rid_paths("key"),
        "service1_with_params": TC_PATHS + S1_PATHS + ["vp"] + _rid_paths("vp.req_id"),
        "tc_unpack": TC_PATHS + [q.replace("tc", "dec", 1) for q in TC_PATHS],
        "pdu_ctor": cp, "pdu_then_conf_scalar": cp, "pdu_then_conf_field": cp,
        "two_pdus_one_conf": cp + _pdu_paths("pdu2", PDU_KINDS[_P(p, "kind2")]),
        "holder_assign": cp + ["holder", "holder.pdu", "holder.pdu.pdu_header"],
        # (the decoded filestore responses are not cells of the model's decoder result: no element paths for them)
        "pdu_unpack": cp + ([q for q in _pdu_paths("dec", kind) if not q.startswith("dec.file_store_responses.")] if kind else []),
        "finished_success_pdu": _conf_paths("conf") + _pdu_paths("pdu", "finished"),
        "factory_twice": [x for n in ("a", "b") for x in (_conf_paths(n) if _P(p, "which") == 3 else
                                                          [n, f"{n}.file_store_responses", f"{n}.fault_location", f"{n}.segment_metadata"])],
        "finished_set": _conf_paths("conf") + _caller_paths("finished") + _pdu_paths("pdu", "finished") + ["arg", "arg.0"],
        "filedata_set": _conf_paths("conf") + _caller_paths("filedata") + _pdu_paths("pdu", "filedata") + ["arg"],
        "uslp_frame_ctor": USLP_PATHS, "uslp_set_frame_len": USLP_PATHS,
        "uslp_frame_unpack": USLP_PATHS + [q.replace("fr", d, 1) for d in ("dec", "dec2") for q in USLP_PATHS[2:]],
        "tm_from_composite": _hdr_paths("hdr") + ["sec"] + TM_PATHS,
        "service1_from_tm": TM_PATHS + _rep_paths("rep"),
        "service1_from_tm_twice": TM_PATHS + _rep_paths("rep") + _rep_paths("rep2"),
        "service1_default_twice": _rep_paths("a") + _rep_paths("b"),
        "pdu_flag_set": cp + ["arg", "arg2"],
    }[name]


def _alias_base(rng: random.Random) -> Dict[str, int]:
    idw, seqw = rng.choice([1, 2, 4, 8]), rng.choice([1, 2, 4, 8])
    return {"service": rng.randint(1, 255), "subservice": rng.randint(1, 255), "apid": rng.randint(1, 2047), "apid2": rng.randint(1, 2047),
            "count": rng.randint(1, 16383), "source_id": rng.randint(0, 65535), "ack": rng.randint(0, 15), "dlen": rng.randint(0, 40),
            "tslen": rng.choice([0, 7]), "ptype": rng.randint(0, 1), "shf": rng.randint(0, 1), "flags": rng.randint(0, 3),
            "version": rng.randint(0, 7), "hdlen": rng.randint(0, 65535),
            "idw": idw, "seqw": seqw, "src_v": rng.randint(0, 255), "dst_v": rng.randint(0, 255), "seq_v": rng.randint(0, 255),
            "mode": rng.randint(0, 1), "large": rng.randint(0, 1), "crc": rng.randint(0, 1), "dir": rng.randint(0, 1),
            "segctrl": rng.randint(0, 1), "acked": rng.choice([4, 5]), "cond": rng.choice([0, 1, 4]), "tstatus": rng.randint(0, 3),
            "resp": rng.randint(0, 1), "progress": rng.randint(0, U32), "end": rng.randint(0, U32), "size": rng.randint(0, U32),
            "nsegs": rng.randint(0, 3), "segs_none": 0, "fault": rng.randint(0, 1), "nresp": rng.choice([0, 2]),
            "delivery": rng.randint(0, 1), "status": rng.randint(0, 3), "closure": rng.randint(0, 1), "ctype": rng.choice([0, 15]),
            "opts": rng.randint(0, 1), "meta": rng.randint(0, 1), "state": rng.randint(0, 3), "metalen": rng.randint(0, 20),
            "offset": rng.randint(0, U32),
            # USLP frames / service-1 reports from telemetry / PDU-level setters
            "trunc": 0, "scid": rng.randint(0, 65535), "vcid": rng.randint(0, 63), "mapid": rng.randint(0, 15), "srcdest": rng.randint(0, 1),
            "flen": rng.randint(0, 65535), "vcflen": rng.choice([0, 1, 2, 4]), "ocfflag": 0, "rules": rng.choice([3, 4, 5, 6, 7]),
            "upid": rng.choice([0, 1, 4, 5]), "fhp_some": 0, "fhp": rng.randint(0, 65535), "tfdzlen": rng.randint(1, 30),
            "iz_some": rng.randint(0, 1), "iz": rng.randint(1, 4), "ocf_some": 0, "ocf": 4, "fecf_some": rng.randint(0, 1),
            "fecf": rng.choice([2, 4]), "sub": rng.choice([1, 3, 5, 7]), "w2": rng.choice([1, 2, 4, 8])}


def alias_lines(rng: random.Random, thorough: bool) -> List[Dict[str, Any]]:
    """every scenario x its parameter variants (PDU kind, CRC flag, large-file flag, widths, which setter, ...)"""
    out: List[Dict[str, Any]] = []

    def add(name, **fix):
        p = _alias_base(rng)
        p.update(fix)
        if name == "pdu_unpack" and p.get("fault") and PDU_KINDS[p["kind"]] == "finished":
            p["cond"] = 4            # a condition code under which the fault location is part of the packed PDU
        kind = PDU_KINDS[p["kind"]] if "kind" in p else None
        out.append({"op": "heap_alias", "scenario": name, "p": p, "paths": sorted(set(_alias_paths(name, kind, p)))})

    reps = 3 if thorough else 1
    for _ in range(reps):
        for pt in (0, 1):
            for shf in (0, 1):
                add("reqid_from_sp_header", ptype=pt, shf=shf)
                add("tc_from_sp_header", ptype=pt, shf=shf)
            add("tc_from_composite", ptype=1, shf=pt)
        for _i in range(2):
            add("reqid_from_pus_tc")
            add("reqid_twice")
            add("tc_to_space_packet")
            add("tm_to_space_packet")
            add("verificator_add_tc")
            add("tc_unpack")
        for which in range(4):
            b = _alias_base(rng)
            v = {0: (b["count"] + 1) % 16384, 1: (b["apid"] + 1) % 2048, 2: (b["source_id"] + 1) % 65536, 3: b["dlen"] + 1}[which]
            add("reqid_then_tc_set", set=which, v=v, **{k: b[k] for k in ("count", "apid", "source_id", "dlen")})
            add("sp_then_tc_set", set=which, v=v, **{k: b[k] for k in ("count", "apid", "source_id", "dlen")})
        for which in range(3):
            b = _alias_base(rng)
            v = {0: (b["apid"] + 1) % 2048, 1: 1, 2: b["dlen"] + 1}[which]
            add("sp_then_tm_set", set=which, v=v, apid=b["apid"], dlen=b["dlen"])
        for sub in (1, 3, 7):
            add("service1_from_tc", sub=sub)
            add("service1_with_params", sub=sub)
        for k, kind in enumerate(PDU_KINDS):
            subs = {"ack": [{"acked": 4}, {"acked": 5}], "nak": [{"segs_none": 0}, {"segs_none": 1}], "eof": [{"fault": 0}, {"fault": 1}],
                    "finished": [{"fault": 0, "nresp": 0}, {"fault": 1, "nresp": 2}], "metadata": [{"opts": 0}, {"opts": 1}],
                    "filedata": [{"meta": 0}, {"meta": 1}]}.get(kind, [{}])
            for crc in (0, 1):
                for large in (0, 1):
                    for sv in subs:
                        add("pdu_ctor", kind=k, crc=crc, large=large, dir=rng.randint(0, 1), **sv)
                    add("pdu_unpack", **{"kind": k, "crc": crc, "large": large, **rng.choice(subs), "segs_none": 0})
            for attr in range(5):
                b = _alias_base(rng)
                cur = [b["mode"], b["large"], b["crc"], b["dir"], b["segctrl"]][attr]
                add("pdu_then_conf_scalar", kind=k, attr=attr, v=1 - cur, mode=b["mode"], large=b["large"], crc=b["crc"], dir=b["dir"],
                    segctrl=b["segctrl"])
            for attr in range(3):
                b = _alias_base(rng)
                cur = [b["src_v"], b["dst_v"], b["seq_v"]][attr]
                add("pdu_then_conf_field", kind=k, attr=attr, v=(cur + 1) % 256, src_v=b["src_v"], dst_v=b["dst_v"], seq_v=b["seq_v"])
            for k2 in range(8):
                add("two_pdus_one_conf", kind=k, kind2=k2)
            add("holder_assign", kind=k)
        for crc in (0, 1):
            for large in (0, 1):
                add("finished_success_pdu", crc=crc, large=large)
        for which in range(4):
            add("factory_twice", which=which)
        for fault in (0, 1):
            add("finished_set", kind=5, set=0, v=4, cond=0, fault=fault)
            add("finished_set", kind=5, set=0, v=0, cond=4, fault=fault)
            for v in (0, 1, 2):
                add("finished_set", kind=5, set=1, v=v, fault=fault, cond=4)
            for v in (0, 1, 3):
                add("finished_set", kind=5, set=2, v=v, fault=fault)
            for nresp in (0, 2):
                add("finished_set", kind=5, set=3, v=0, fault=fault, nresp=nresp)
        # second round (DESIGN 13.10): USLP frames, telemetry factories, PDU-level setters, NAK without a list
        for trunc in (0, 1):
            for ocf in (0, 1):
                add("uslp_frame_ctor", trunc=trunc, ocfflag=ocf, ocf_some=rng.randint(0, 1), fhp_some=rng.randint(0, 1), rules=rng.randint(0, 7))
                add("uslp_set_frame_len", trunc=trunc, ocfflag=ocf, ocf_some=ocf, fhp_some=rng.randint(0, 1), rules=rng.randint(0, 7))
        for ocf in (0, 1):
            add("uslp_frame_unpack", ocfflag=ocf, ocf_some=ocf)
        add("uslp_frame_unpack", iz_some=1, fecf_some=1)
        for shf in (0, 1):
            add("tm_from_composite", ptype=0, shf=shf)
        for sub in (1, 3, 5, 7):
            add("service1_from_tm", sub=sub)
            add("service1_from_tm_twice", sub=sub)
        add("service1_default_twice", sub=rng.choice([1, 3, 5, 7]))
        add("two_pdus_one_conf", kind=3, kind2=3, segs_none=1)
        for k, kind in enumerate(PDU_KINDS):
            b = _alias_base(rng)
            if kind in ("keepalive", "nak"):
                for large in (0, 1):
                    add("pdu_flag_set", kind=k, set=0, v=1 - large, large=large, end=rng.randint(0, 1000), progress=rng.randint(0, 1000))
            attr = rng.randint(0, 4)
            cur = [b["mode"], b["large"], b["crc"], b["dir"], b["segctrl"]][attr]
            add("pdu_flag_set", kind=k, set=1, attr=attr, v=1 - cur, mode=b["mode"], large=b["large"], crc=b["crc"], dir=b["dir"],
                segctrl=b["segctrl"], end=rng.randint(0, 1000), progress=rng.randint(0, 1000), size=rng.randint(0, 1000), offset=rng.randint(0, 1000))
            add("pdu_flag_set", kind=k, set=2, v=rng.randint(0, 254))
            add("pdu_flag_set", kind=k, set=3, v=rng.randint(0, 254))
            attr = rng.randint(0, 2)
            cur = [b["src_v"], b["dst_v"], b["seq_v"]][attr]
            add("pdu_flag_set", kind=k, set=4, attr=attr, v=(cur + 1) % 256, src_v=b["src_v"], dst_v=b["dst_v"], seq_v=b["seq_v"])
        for meta in (0, 1):
            b = _alias_base(rng)
            add("filedata_set", kind=7, set=0, v=b["dlen"] + 1, dlen=b["dlen"], meta=meta)
            for v in (0, 3):
                add("filedata_set", kind=7, set=1, v=v, meta=meta, metalen=5)
    return out


def alias_cases(rng: random.Random, thorough: bool) -> Iterator[Case]:
    lines = alias_lines(rng, thorough)
    # the model's prediction for each line (the driver evaluates Heap.lean), carried in the line as `claim`
    answers = core.run_driver([json.dumps(dict(l, op="heap_alias_predict")) for l in lines])
    for l, r in zip(lines, answers):
        m = r.get("ok")
        if isinstance(m, dict):
            l["claim"] = {"separated": m["separated"], "may_write": m["written"], "objects": m["objects"]}
        yield Case(l, "valid", tag=f"alias-{l['scenario']}")


class C11(Prop):
    id = "C11"
    title = "Lengths track mutations, pack is repeatable, caller inputs are not modified"
    lean_modules = ["SpVerif.Props.C11", "SpVerif.Props.C11Heap"]
    exhaustive_note = ("every sequence of length 1..3 (thorough: 1..4) over a pool of 2-7 setter calls per class "
                       "(small arguments, clearing arguments and one refused oversized argument) for every class x "
                       "{CRC, large file} / {from constructor, from decoder} / construction rule; all 512 header "
                       "configurations through the six mutable CFDP constructors for the caller's PduConfig; every ordered pair of "
                       "entity-ID widths (same number) as consecutive EOF / Finished fault locations under every condition "
                       "code; every pool call (NAK / Keep Alive: every pair) with bystander objects for every caller direction "
                       "x large file flag; alias graphs: every scenario of the object-graph model x {PDU kind} x {CRC, large file} x "
                       "{optional caller objects present / absent} x {every modelled setter / configuration attribute}")
    _trusted_static = [
        "object identity: the aliasing clauses ('the caller's objects are not modified', request ID / space-packet view are "
        "snapshots, factory results are independent, what each constructor keeps of the caller's objects) are theorems over the "
        "object-graph model Model/Heap.lean (Props/C11Heap.lean: 63 general theorems - frame lemmas, write sets of every constructor / "
        "factory / decoder, to_space_packet writes only the packet's own crc16 cache, separation and value snapshot for all TC / TM "
        "setter sequences and every depth, the alias relation of the returned PDU to the caller's PduConfig, keeps-caller-object "
        "theorems, USLP frames (set_frame_len_in_header writes exactly the caller's frame_len), adoption by from_composite_fields / Service1Tm.from_tm, PDU-level flag setters invisible to the caller, closure preservation incl. every setter family - and 3 evaluated instances); that the model allocates, stores and writes where the Python "
        "code does is OBSERVED, not proved: op heap_alias compares the alias graph the model predicts for every scenario x parameter "
        "variant with `is` and deep value snapshots on the real objects, for the listed public access paths only (rule: every pair "
        "the model separates must be two objects, every modified object must be one the model writes; more separation / fewer "
        "writes than predicted are information). CPython object identity semantics (`is`, copy.copy, copy.deepcopy, dataclass "
        "default_factory) are trusted",
        "further value-level evidence for the same clause: value snapshots of every caller-supplied PduConfig / params dataclass / "
        "TLV list / bytes before and after constructor and pack(); bystander objects built from the same PduConfig object "
        "re-observed after every setter call on another object",
        "the filestore-response TLV cache is modelled as a record of what pack() caches (no documented setter mutates a TLV "
        "object); caches inside Metadata option objects are not modelled (== against a deep copy taken before pack() is "
        "checked on the real objects)",
    ]
    assumptions = ["setter arguments are of the documented types (octet strings, enum members, TLV objects, lists)",
                   "heap model: the value of the _crc16 cache (only None / set), the filestore TLV cache and objects unreachable when a call returns are not modelled; "
                   "length scalars only record that a setter rewrites them (their values are Model/Mutation.lean's subject); "
                   "theorems hold for every depth n of reach / view; the driver evaluates views to depth 8 (deepest modelled chain: 4)"]

    @property
    def trusted_base(self):
        """static text plus what the alias-graph tie saw in this run (read when the evidence file is written)"""
        i = ALIAS_INFO
        more = sorted(i["more_separated"])
        dyn = (f"alias-graph tie, this run: {i['lines']} scenario lines; pairs of paths the model predicts SHARED: "
               f"{i['shared_pairs_predicted']}, of which the implementation shares {i['shared_pairs_observed']}; writes predicted "
               f"{i['writes_predicted']}, observed {i['writes_observed']} (fewer = accepted); pairs more separated than predicted "
               f"(accepted, information): {len(more)}" + (": " + "; ".join(more[:12]) if more else ""))
        return list(self._trusted_static) + [dyn]

    def impl_ops(self):
        return OPS

    def nontrivial(self, c):
        return bool(c.op.get("steps")) or c.op["op"] in ("c11_inputs", "c11_conf", "heap_alias")

    def table_sync(self):
        d = []
        for name, got, want in [("USLP_TFDF_MAX_SIZE", USLP_TFDF_MAX_SIZE, 65529), ("CCSDS_HEADER_LEN", CCSDS_HEADER_LEN, 6),
                                ("PUS_C_SEC_HEADER_LEN", PusTcDataFieldHeader.PUS_C_SEC_HEADER_LEN, 5),
                                ("PusTmSecondaryHeader.MIN_LEN", PusTmSecondaryHeader.MIN_LEN, 7),
                                ("LargeFileFlag.LARGE", int(LargeFileFlag.LARGE), 1), ("CrcFlag.WITH_CRC", int(CrcFlag.WITH_CRC), 1)]:
            if got != want:
                d.append(f"{name}: module {got}, model {want}")
        return d

    def cases(self, rng: random.Random, tier: str) -> Iterator[Case]:
        thorough = tier == "thorough"
        max_len = 40 if thorough else 12
        n_rand = 60 if thorough else 10
        ex_len = 4 if thorough else 3
        for name, g in GENS.items():
            fixes = fixes_for(name, thorough)
            # 1. boundary sequences: largest accepted argument, one more (refused), and going on afterwards
            for fx in (fixes if thorough else [rng.choice(fixes)]):
                a = g.init(rng, **fx)
                bseqs = g.boundary(rng, a)
                if not thorough and len(bseqs) > 2:
                    bseqs = rng.sample(bseqs, 2)        # quick: two of the boundary sequences (the seed decides which)
                for steps in bseqs:
                    yield seq_case(name, a, steps, "boundary")
            if name == "frame":
                # the frame length field at its limit, with trailer parts (insert zone / OCF / FECF) present so that the
                # data zone bound alone does not already stop the frame from growing past 65536 octets
                for i in range(6 if thorough else 2):
                    a = g.init(rng, truncated=False, ocf=bool(i % 2))
                    if a["iz"] is None and a["fecf"] is None and a["ocf"] is None:
                        a["fecf"] = "a1b2"
                    for steps in g.len_boundary(a):
                        yield seq_case(name, a, steps, "frame-len-boundary")
            # 2. exhaustive short sequences over a small pool
            for fx in fixes:
                a = g.init(rng, **fx)
                pool = g.pool(rng, a)
                budget = 700 if thorough else 250          # sequences of the longest length per configuration
                lim = ex_len
                while lim > 1 and len(pool) ** lim > budget:
                    lim -= 1
                for n in range(1, lim + 1):
                    for combo in itertools.product(pool, repeat=n):
                        yield seq_case(name, a, list(combo), f"exhaustive{n}")
                if lim < ex_len:
                    for _ in range(200 if thorough else 60):
                        yield seq_case(name, a, [rng.choice(pool) for _ in range(ex_len)], f"exhaustive{ex_len}-sample")
            # 3. random sequences of length 1..max_len (refused calls included with low probability)
            for fx in fixes:
                for i in range(n_rand):
                    a = g.init(rng, **fx)
                    n = rng.randint(1, max_len)
                    big = rng.choice([0.0, 0.05, 0.12] if thorough else [0.0, 0.0, 0.0, 0.08])
                    yield seq_case(name, a, [g.step(rng, a, big) for _ in range(n)], "random")
        # 3b. arguments equal (==) to the value they replace, encoded differently
        yield from self.recoded_cases(rng, thorough)
        # 3c. the same sequences while other objects built from the same caller configuration exist
        yield from self.twin_cases(rng, thorough)
        # 3d. objects and parameter objects that come from the library's factories
        yield from self.factory_cases(rng, thorough)
        # 3e. alias graphs: the object-graph model's prediction against `is` on the real objects
        yield from alias_cases(rng, thorough)
        # 4. caller inputs: all 512 header configurations through the three modelled constructors
        for kind in ("nak", "keepalive", "filedata", "eof", "finished", "metadata"):
            for a in c06.all_confs(rng):
                if not thorough and rng.random() < 0.5:
                    continue
                yield Case({"op": "c11_conf", "kind": kind, **a}, "valid", tag=f"conf-{kind}")
        # 5. caller inputs: every constructor + pack(), every caller-supplied object value-compared
        for _ in range(60 if thorough else 12):
            for kind in INPUT_BUILDERS:
                yield Case({"op": "c11_inputs", "kind": kind, **self.input_args(kind, rng)}, "valid", tag=f"inputs-{kind}")

    def recoded_cases(self, rng: random.Random, thorough: bool) -> Iterator[Case]:
        """setter arguments that compare equal (==) to the value they replace but encode differently: entity IDs with the
        same number in another width, as EOF / Finished fault location under every condition code (Finished: every code
        that packs the fault location, and sequences that change the code in between) and inside Metadata options"""
        fault_conds = [c for c in c06.COND_MEMBERS if c not in c6v.NO_FAULT_CONDS]
        F = lambda h: {"set": "fault", "v": h}  # noqa
        for name, conds in (("finished", fault_conds), ("eof", c06.COND_MEMBERS)):
            g, fixes = GENS[name], fixes_for(name, thorough)
            for cond in conds:
                for fx in (fixes if thorough else [rng.choice(fixes)]):
                    for walk in recoded_id_walks(rng):
                        a = g.init(rng, **fx)
                        a["cond"] = cond
                        if rng.random() < 0.3 and not a["via_unpack"]:
                            a["fault"] = None                  # the first value comes from a setter call too
                            steps = [F(h) for h in walk]
                        else:
                            a["fault"] = walk[0]               # the first value comes from the constructor / decoder
                            steps = [F(h) for h in walk[1:]]
                        yield seq_case(name, a, steps, "same-id-other-width")
        # Finished: the condition code decides whether the fault location is packed; it changes between the assignments
        g, fixes = GENS["finished"], fixes_for("finished", thorough)
        C = lambda c: {"set": "cond", "v": c}  # noqa
        for fx in (fixes if thorough else rng.sample(fixes, 2)):
            for walk in recoded_id_walks(rng):
                a = g.init(rng, **fx)
                off, on = rng.choice(c6v.NO_FAULT_CONDS), rng.choice(fault_conds)
                a["cond"] = off
                a["fault"] = None if a["via_unpack"] else walk[0]
                steps = []
                for i, h in enumerate(walk[1:]):
                    steps.append(F(h))
                    if i % 3 == 0:
                        steps.append(C(on))
                    elif i % 3 == 2:
                        steps.append(C(rng.choice([off, off, rng.choice(fault_conds)])))
                    if i == 5:
                        steps += [F(None), F(h)]
                yield seq_case("finished", a, steps, "same-id-other-width-cond")
        # Metadata options: lists whose entity-ID elements compare equal to those they replace
        g, fixes = GENS["metadata"], fixes_for("metadata", thorough)
        E = lambda h: {"kind": "entity_id", "value": h}  # noqa
        for fx in (fixes if thorough else rng.sample(fixes, 2)):
            for walk in recoded_id_walks(rng):
                a = g.init(rng, **fx)
                other = c6v.rand_option(rng)
                mixed = rng.random() < 0.5
                opts = (lambda h: [other, E(h)]) if mixed else (lambda h: [E(h)])  # noqa
                a["options"] = opts(walk[0])
                yield seq_case("metadata", a, [{"set": "options", "v": opts(h)} for h in walk[1:]], "same-id-other-width")

    def twin_cases(self, rng: random.Random, thorough: bool) -> Iterator[Case]:
        """key "twin" (not read by the model op): further objects of the class exist while the setters are called - see
        Bystanders. CFDP classes: every caller direction x large file flag (the classes force their direction; the file
        flag setters change it) x CRC flag"""
        modes = ["before", "after", "both"]
        k = rng.randrange(3)
        for name, g in GENS.items():
            kind = KINDS[name]
            flag_setter = name in ("nak", "ka")
            if flag_setter:
                confs = [{"crc": c, "large": lg, "dir": d} for d in (0, 1) for lg in (0, 1) for c in (0, 1)]
            elif kind.shares_conf:
                confs = [{"crc": rng.randint(0, 1), "large": lg, "dir": d} for d in (0, 1) for lg in (0, 1)]
            else:
                confs = [{}, {}]
            if thorough:
                confs = confs * 3
            for fx in confs:
                a = g.init(rng, via=thorough and rng.random() < 0.2, **{x: v for x, v in fx.items() if x != "dir"})
                if "dir" in fx:
                    a["dir"] = fx["dir"]
                pool = g.pool(rng, a)
                if not (flag_setter or thorough):
                    pool = [s for s in pool if not _has_big_fill(s)]     # quick: the model is slow on 64 KiB arguments
                seqs = [[s] for s in pool]
                if flag_setter or thorough:
                    seqs += [list(c) for c in itertools.product(pool, repeat=2)]
                for _ in range(6 if thorough else 2):
                    seqs.append([g.step(rng, a, rng.choice([0.0, 0.0, 0.08]) if thorough else 0.0) for _ in range(rng.randint(2, 8))])
                for steps in seqs:
                    c = seq_case(name, a, steps, "bystander")
                    c.op["twin"] = modes[k % 3]
                    k += 1
                    yield c

    def factory_cases(self, rng: random.Random, thorough: bool) -> Iterator[Case]:
        """(i) key "factory" of a c11_inputs line: every factory of the package (FACTORIES) called several times, one result
        modified, the others and a later result looked at again; (ii) key "factory" of a setter-sequence line (not read by
        the model op): the object under test and its bystanders come from FinishedPdu.success_pdu / FinishedParams.
        success_params / FinishedParams.empty / FileDataParams.empty, the whole sequence is compared with the model
        built from the documented values of the factory"""
        for name, f in FACTORIES.items():
            if f.latent:
                continue
            for _ in range(10 if thorough else 2):
                yield Case({"op": "c11_inputs", "kind": "factory", "factory": name, "p": factory_params(rng)}, "valid",
                           tag="factory-independence")
        modes = ["before", "after", "both"]
        k = rng.randrange(3)
        for name, hows in (("finished", list(FinishedKind.FACTORY_ARGS)), ("fd", ["empty_params"])):
            g = GENS[name]
            for how in hows:
                for fx in [{"crc": c, "large": lg} for c in (0, 1) for lg in (0, 1)]:
                    a = g.init(rng, via=False, **fx)
                    if name == "finished":
                        a.update(FinishedKind.FACTORY_ARGS[how])
                    else:
                        a.update(data="", offset=0, meta=None, state=None)
                    a.update(via_unpack=False, factory=how, dir=rng.randint(0, 1))
                    pool = g.pool(rng, a)
                    if not thorough:
                        pool = [s for s in pool if not _has_big_fill(s)]
                    seqs = [[s] for s in pool]
                    if thorough:
                        seqs += [list(c) for c in itertools.product(pool, repeat=2)]
                    for _ in range(6 if thorough else 2):
                        seqs.append([g.step(rng, a, 0.0) for _ in range(rng.randint(2, 6))])
                    for steps in seqs:
                        c = seq_case(name, a, steps, "factory-bystander")
                        c.op["twin"] = modes[k % 3]
                        k += 1
                        yield c

    def input_args(self, kind: str, rng: random.Random) -> Dict[str, Any]:
        mutable = rng.random() < 0.5
        if kind == "tc":
            return {**c02.rand_args(rng), "mutable": mutable}
        if kind == "tm":
            return {**c03.rand_args(rng), "mutable": mutable}
        if kind == "frame":
            f = GENS["frame"].init(rng)
            f["mutable"] = mutable
            return f
        if kind == "eof":
            a = GENS["eof"].init(rng)
        elif kind == "finished":
            a = GENS["finished"].init(rng)
            a["none_responses"] = rng.random() < 0.2
        elif kind == "metadata":
            a = GENS["metadata"].init(rng)
        elif kind == "filedata":
            a = GENS["fd"].init(rng)
        elif kind == "nak":
            a = GENS["nak"].init(rng)
            if a["segs"] is None:
                a["segs"] = []
        else:
            a = c06.rand_conf(rng)
            a.update(progress=rng.randint(0, U32), resp=rng.randint(0, 1), acked=rng.choice([4, 5]),
                     cond=rng.choice(c06.COND_MEMBERS), tstatus=rng.randint(0, 3))
        a["mutable"] = mutable
        a.pop("kind", None)
        return a


PROP = C11()
