"""C11 — lengths track mutations, pack is repeatable, caller inputs are not modified

One op line = one initial object of a mutable packet class plus a whole sequence of documented
setter calls. After construction and after EVERY call the observer records: outcome of the call,
reported length (`packet_len` / `len()`), `pack()` octets, the length field read from those octets,
a second `pack()`, `==` against a deep copy taken before packing, and octets / `==` of a freshly
built object with the same final values. The same line goes through the Lean state machines of
`Model/Mutation.lean` (whose observations are what the C11 theorems prescribe).

Two further families use the same op lines: "same-id-other-width" (setter arguments that compare equal under `==` to the
value they replace but encode differently - entity IDs holding the same number in 1/2/4/8 octets) and "bystander" (case key
"twin", ignored by the model op: further objects of the class, built from the one PduConfig object the caller holds, exist
while the setters are called on the first object and must stay what they were - see `Bystanders`).

KINDS is a table: adding a kind = one `Kind` subclass + one generator entry (+ one `Kind` record in Ops/Mutation.lean).
"""
import copy
import itertools
import json
import random
import zlib
from typing import Any, Dict, Iterator, List, Optional

import core
from core import Case, Prop, SelfCheckFailure, exc_category, DOCUMENTED
from gen import hx, unhx, rbytes

from spacepackets.crc import CRC16_CCITT_FUNC
from spacepackets.ccsds.spacepacket import CCSDS_HEADER_LEN
from spacepackets.ecss.tc import PusTc, PusTcDataFieldHeader
from spacepackets.ecss.tm import PusTm, PusTmSecondaryHeader
from spacepackets.cfdp.conf import PduConfig
from spacepackets.cfdp.defs import (
    ConditionCode, DeliveryCode, FileStatus, LargeFileFlag, ChecksumType, CrcFlag, Direction,
    TransmissionMode, SegmentationControl,
)
from spacepackets.cfdp.lv import CfdpLv
from spacepackets.cfdp.tlv import (
    CfdpTlv, TlvType, EntityIdTlv, FileStoreResponseTlv, FilestoreActionCode, FilestoreResponseStatusCode,
)
from spacepackets.cfdp.pdu.file_directive import DirectiveType
from spacepackets.cfdp.pdu.ack import AckPdu, TransactionStatus
from spacepackets.cfdp.pdu.prompt import PromptPdu, ResponseRequired
from spacepackets.cfdp.pdu.keep_alive import KeepAlivePdu
from spacepackets.cfdp.pdu.nak import NakPdu
from spacepackets.cfdp.pdu.eof import EofPdu
from spacepackets.cfdp.pdu.finished import FinishedPdu, FinishedParams
from spacepackets.cfdp.pdu.metadata import MetadataPdu, MetadataParams
from spacepackets.cfdp.pdu.file_data import FileDataPdu, FileDataParams, SegmentMetadata, RecordContinuationState
from spacepackets.util import UnsignedByteField
from spacepackets.uslp.frame import TransferFrame, TransferFrameDataField, USLP_TFDF_MAX_SIZE
from spacepackets.uslp.header import PrimaryHeader, TruncatedPrimaryHeader

import props.c02 as c02
import props.c03 as c03
import props.c06_fixed as c06
import props.c06_var as c6v
import props.c07 as c07
import props.c17 as c17

U32 = (1 << 32) - 1


# --------------------------------------------------------------------------------------------
# encodings shared with Ops/Mutation.lean
# --------------------------------------------------------------------------------------------
def _data(v) -> bytes:
    """hex string or {"fill": b, "n": k}"""
    if isinstance(v, str):
        return unhx(v)
    return bytes([v["fill"]]) * v["n"]


def fill(n: int, b: int = 0) -> Dict[str, int]:
    return {"fill": b, "n": n}


def _rawj(b: bytes):
    if len(b) <= 2048:
        return hx(b)
    return {"len": len(b), "adler": int(zlib.adler32(b)), "head": hx(b[:64]), "tail": hx(b[len(b) - 64:])}


def _conf_of(h) -> PduConfig:
    """a new PduConfig with the values a PDU header shows (public attributes only)"""
    s, d, q = h.source_entity_id, h.dest_entity_id, h.transaction_seq_num
    return PduConfig(source_entity_id=UnsignedByteField(int(s.value), int(s.byte_len)),
                     dest_entity_id=UnsignedByteField(int(d.value), int(d.byte_len)),
                     transaction_seq_num=UnsignedByteField(int(q.value), int(q.byte_len)),
                     trans_mode=TransmissionMode(int(h.transmission_mode)), file_flag=LargeFileFlag(int(h.file_flag)),
                     crc_flag=CrcFlag(int(h.crc_flag)), direction=Direction(int(h.direction)),
                     seg_ctrl=SegmentationControl(int(h.seg_ctrl)))


def _hdr_extra(h) -> Dict[str, Any]:
    return {"dlen": int(h.pdu_data_field_len), "large": int(h.file_flag), "segmeta": int(h.segment_metadata_flag)}


def _cfdp_len_field(raw: bytes) -> int:
    return (raw[1] << 8) | raw[2]


# --------------------------------------------------------------------------------------------
# the table of kinds
# --------------------------------------------------------------------------------------------
class Kind:
    op = ""
    modelled = True          # a Lean state machine exists (else: implementation-side self-checks only)

    shares_conf = False      # the constructor takes a caller-supplied PduConfig (CFDP classes)

    def ctor(self, a, conf=None):
        """the object straight from the constructor (`conf`: the caller's PduConfig object to hand in, CFDP classes only)"""
        raise NotImplementedError

    def decoded(self, a, obj):
        """the object a decoder returns for what `obj` packs"""
        return obj

    def build(self, a, conf=None):
        p = self.ctor(a, conf)
        return self.decoded(a, p) if a.get("via_unpack") else p

    def apply(self, obj, s): raise NotImplementedError
    def reported(self, obj) -> int: return int(obj.packet_len)
    def packer(self, obj): return obj.pack                     # the encoder call itself (returns what the library returns)
    def pack(self, obj) -> bytes: return bytes(self.packer(obj)())
    def len_field(self, obj, raw: bytes) -> Optional[int]: raise NotImplementedError
    def expected_len_field(self, obj, raw: bytes) -> Optional[int]: raise NotImplementedError
    def extra(self, obj) -> Dict[str, Any]: return {}
    def fresh(self, obj): raise NotImplementedError
    def equal(self, x, y) -> bool: return bool(x == y) and bool(y == x)


class TcKind(Kind):
    op = "c11_tc"

    def ctor(self, a, conf=None): return c02._tc(a)
    def decoded(self, a, t): return PusTc.unpack(bytes(t.pack()))

    def apply(self, t, s): t.app_data = _data(s["data"])
    def len_field(self, t, raw): return (raw[4] << 8) | raw[5]
    def expected_len_field(self, t, raw): return len(raw) - CCSDS_HEADER_LEN - 1
    def extra(self, t): return {"dlen": int(t.sp_header.data_len), "data_len": len(t.app_data)}

    def fresh(self, t):
        return PusTc(service=t.service, subservice=t.subservice, apid=t.apid, app_data=bytes(t.app_data),
                     seq_count=t.seq_count, source_id=t.source_id, ack_flags=t.pus_tc_sec_header.ack_flags)


class TmKind(Kind):
    op = "c11_tm"

    def ctor(self, a, conf=None): return c03._tm(a)
    def decoded(self, a, t): return PusTm.unpack(bytes(t.pack()), len(unhx(a["timestamp"])))

    def apply(self, t, s): t.tm_data = _data(s["data"])
    def len_field(self, t, raw): return (raw[4] << 8) | raw[5]
    def expected_len_field(self, t, raw): return len(raw) - CCSDS_HEADER_LEN - 1
    def extra(self, t): return {"dlen": int(t.sp_header.data_len), "data_len": len(t.tm_data)}

    def fresh(self, t):
        sec = t.pus_tm_sec_header
        return PusTm(service=t.service, subservice=t.subservice, timestamp=bytes(t.timestamp),
                     source_data=bytes(t.tm_data), apid=t.apid, seq_count=t.seq_count,
                     message_counter=sec.message_counter, space_time_ref=sec.spacecraft_time_ref,
                     destination_id=sec.dest_id, packet_version=t.ccsds_version)


class CfdpKind(Kind):
    shares_conf = True
    cls: Any = None

    def decoded(self, a, p): return self.cls.unpack(bytes(p.pack()))
    def len_field(self, p, raw): return _cfdp_len_field(raw)
    def expected_len_field(self, p, raw): return len(raw) - int(p.pdu_header.header_len)
    def extra(self, p): return _hdr_extra(p.pdu_header)


def _seglist(v):
    if v is None:
        return None
    if isinstance(v, dict):
        return [(int(v["fill"][0]), int(v["fill"][1]))] * v["n"]
    return [(int(s[0]), int(s[1])) for s in v]


class NakKind(CfdpKind):
    op = "c11_nak"

    cls = NakPdu

    def ctor(self, a, conf=None):
        return NakPdu(pdu_conf=c06._conf(a) if conf is None else conf, start_of_scope=a["start"], end_of_scope=a["end"],
                      segment_requests=_seglist(a["segs"]))

    def apply(self, p, s):
        if s["set"] == "segs":
            p.segment_requests = _seglist(s["segs"])
        else:
            p.file_flag = LargeFileFlag(s["large"])

    def extra(self, p):
        e = _hdr_extra(p.pdu_header)
        e["nsegs"] = len(p.segment_requests)
        return e

    def fresh(self, p):
        return NakPdu(_conf_of(p.pdu_header), p.start_of_scope, p.end_of_scope, list(p.segment_requests))


class KaKind(CfdpKind):
    op = "c11_ka"

    cls = KeepAlivePdu

    def ctor(self, a, conf=None):
        return KeepAlivePdu(pdu_conf=c06._conf(a) if conf is None else conf, progress=a["progress"])

    def apply(self, p, s): p.file_flag = LargeFileFlag(s["large"])
    def fresh(self, p): return KeepAlivePdu(_conf_of(p.pdu_header), p.progress)


def _meta(s) -> Optional[SegmentMetadata]:
    if s.get("meta") is None:
        return None
    return SegmentMetadata(record_cont_state=RecordContinuationState(s["state"]), metadata=_data(s["meta"]))


class FdKind(CfdpKind):
    op = "c11_fd"

    cls = FileDataPdu

    def ctor(self, a, conf=None):
        return FileDataPdu(pdu_conf=c06._conf(a) if conf is None else conf,
                           params=FileDataParams(file_data=_data(a["data"]), offset=a["offset"], segment_metadata=_meta(a)))

    def apply(self, p, s):
        if s["set"] == "data":
            p.file_data = _data(s["data"])
        else:
            p.segment_metadata = _meta(s)

    def extra(self, p):
        e = _hdr_extra(p.pdu_header)
        sm = p.segment_metadata
        e.update(data_len=len(p.file_data), meta_len=None if sm is None else len(sm.metadata))
        return e

    def fresh(self, p):
        sm = p.segment_metadata
        return FileDataPdu(_conf_of(p.pdu_header), FileDataParams(
            bytes(p.file_data), int(p.offset),
            None if sm is None else SegmentMetadata(sm.record_cont_state, bytes(sm.metadata))))


class FrameKind(Kind):
    op = "c11_frame"

    def ctor(self, a, conf=None): return c17._frame(a)

    def apply(self, f, s):
        if s["set"] == "tfdz":
            f.tfdf.tfdz = _data(s["tfdz"])
        else:
            f.set_frame_len_in_header()

    def reported(self, f): return int(f.len())
    def packer(self, f): return lambda: f.pack(truncated=f.header.truncated())

    def len_field(self, f, raw):
        return None if f.header.truncated() else (raw[4] << 8) | raw[5]

    def expected_len_field(self, f, raw):
        # the field holds what the header object holds; `len_set` says whether that is the total length - 1
        return None if f.header.truncated() else int(f.header.frame_len) % 65536

    def extra(self, f):
        if f.header.truncated():
            return {"tfdf_len": int(f.tfdf.len()), "frame_len": None, "len_set": None}
        return {"tfdf_len": int(f.tfdf.len()), "frame_len": int(f.header.frame_len),
                "len_set": int(f.header.frame_len) + 1 == int(f.len())}

    def fresh(self, f):
        t = f.tfdf
        return TransferFrame(header=copy.deepcopy(f.header),
                             tfdf=TransferFrameDataField(t.tfdz_contr_rules, t.uslp_ident, bytes(t.tfdz), t.fhp_or_lvop),
                             insert_zone=f.insert_zone, op_ctrl_field=f.op_ctrl_field, fecf=f.fecf)

    def equal(self, x, y):   # TransferFrame defines no __eq__: compare the field values
        return c17._frame_fields(x) == c17._frame_fields(y)


# ---- EOF, Finished, Metadata: argument formats and builders of props/c06_var.py ----
def _expand(v):
    """{"fill": item, "n": k} stands for a list of k copies of item"""
    if isinstance(v, dict) and "fill" in v:
        return [v["fill"]] * v["n"] + list(v.get("then", []))
    return v


def _fault_len(t) -> Optional[int]:
    return None if t is None else len(t.value)


class EofKind(CfdpKind):
    op = "c11_eof"

    cls = EofPdu

    def ctor(self, a, conf=None): return c6v._eof(a, conf)

    def apply(self, p, s): p.fault_location = c6v._fault(s["v"])

    def extra(self, p):
        e = _hdr_extra(p.pdu_header)
        e["fault_len"] = _fault_len(p.fault_location)
        return e

    def fresh(self, p):
        fl = p.fault_location
        return EofPdu(_conf_of(p.pdu_header), bytes(p.file_checksum), int(p.file_size),
                      None if fl is None else EntityIdTlv(bytes(fl.value)), c6v._enum(ConditionCode, int(p.condition_code)))


class FinishedKind(CfdpKind):
    op = "c11_fin"

    cls = FinishedPdu

    def ctor(self, a, conf=None): return c6v._fin(a, conf)

    def apply(self, p, s):
        if s["set"] == "responses":
            v = _expand(s["v"])
            p.file_store_responses = None if v is None else [c6v._fsresp(r) for r in v]
        elif s["set"] == "fault":
            p.fault_location = c6v._fault(s["v"])
        else:
            p.condition_code = c6v._enum(ConditionCode, s["v"])

    def extra(self, p):
        e = _hdr_extra(p.pdu_header)
        rs = p.file_store_responses
        e.update(fault_len=_fault_len(p.fault_location), nresp=0 if rs is None else len(rs), cond=int(p.condition_code))
        return e

    def fresh(self, p):
        fl = p.fault_location
        rs = p.file_store_responses
        params = FinishedParams(c6v._enum(ConditionCode, int(p.condition_code)), DeliveryCode(int(p.delivery_code)),
                                FileStatus(int(p.file_status)),
                                None if rs is None else [FileStoreResponseTlv.unpack(bytes(r.pack())) for r in rs],
                                None if fl is None else EntityIdTlv(bytes(fl.value)))
        return FinishedPdu(_conf_of(p.pdu_header), params)


def _lv_len(name: Optional[str]) -> int:
    return 0 if name is None else len(name.encode())


class MetadataKind(CfdpKind):
    op = "c11_md"

    cls = MetadataPdu

    def ctor(self, a, conf=None): return c6v._md(a, conf)

    def apply(self, p, s):
        if s["set"] == "options":
            p.options = c6v._options(_expand(s["v"]))
        elif s["set"] == "src":
            p.source_file_name = c6v._opt_name(s["v"])
        else:
            p.dest_file_name = c6v._opt_name(s["v"])

    def extra(self, p):
        e = _hdr_extra(p.pdu_header)
        o = p.options
        e.update(src_len=_lv_len(p.source_file_name), dst_len=_lv_len(p.dest_file_name), nopts=None if o is None else len(o))
        return e

    def fresh(self, p):
        params = MetadataParams(bool(p.closure_requested), c6v._enum(ChecksumType, int(p.checksum_type)), int(p.file_size),
                                p.source_file_name, p.dest_file_name)
        o = p.options
        return MetadataPdu(_conf_of(p.pdu_header), params,
                           None if o is None else [EntityIdTlv(bytes(t.value)) if isinstance(t, EntityIdTlv)
                                                   else CfdpTlv(t.tlv_type, bytes(t.value)) for t in o])


KINDS: Dict[str, Kind] = {
    "tc": TcKind(), "tm": TmKind(), "nak": NakKind(), "ka": KaKind(), "fd": FdKind(), "frame": FrameKind(),
    "eof": EofKind(), "finished": FinishedKind(), "metadata": MetadataKind(),
}


# --------------------------------------------------------------------------------------------
# observation of one object state
# --------------------------------------------------------------------------------------------
def _obs(kind: Kind, obj, err: Optional[str], where: str, probe: bool = False) -> Dict[str, Any]:
    """`probe`: the repeated pack() is made after the caller has modified the buffer the first one returned (an encoder
    that hands out a buffer it keeps would then change its own result); done once or twice per line"""
    o: Dict[str, Any] = {"err": err, "reported": kind.reported(obj)}
    o.update(kind.extra(obj))
    before = copy.deepcopy(obj)
    try:
        raw = kind.pack(obj)
    except Exception as e:  # noqa
        cat = exc_category(e)
        if cat not in DOCUMENTED:
            raise
        o.update(raw=None, pack_err=cat, len_field=None, again=None, eq_after_pack=None, fresh=None)
        return o
    if probe:
        again = core.pack_stable(obj, f"{type(obj).__name__}.pack() {where}", packer=kind.packer(obj)) == raw
    else:
        again = kind.pack(obj) == raw
    eq_after = kind.equal(obj, before)
    try:
        f = kind.fresh(obj)
        fresh = kind.pack(f) == raw and kind.equal(f, obj)
    except Exception as e:  # noqa
        if exc_category(e) not in DOCUMENTED:
            raise
        fresh = False
    o.update(raw=_rawj(raw), pack_err=None, len_field=kind.len_field(obj, raw), again=again, eq_after_pack=eq_after,
             fresh=fresh)
    # the clauses of the property on the real code alone
    if len(raw) != o["reported"]:
        raise SelfCheckFailure(f"reported length {o['reported']} != len(pack()) {len(raw)} ({where})")
    if o["len_field"] != kind.expected_len_field(obj, raw):
        raise SelfCheckFailure(f"length field in the packed octets is {o['len_field']}, the format requires "
                               f"{kind.expected_len_field(obj, raw)} ({where})")
    if not again:
        raise SelfCheckFailure("pack() twice without changes gives different octets")
    if not eq_after:
        raise SelfCheckFailure("pack() changed the object's equality (object != deep copy taken before pack())")
    if not fresh:
        raise SelfCheckFailure("a freshly constructed object with the same final values packs differently or is not ==")
    return o


class ConstructorRefused(Exception):
    """a constructor / decoder refused arguments of the documented domain. Deliberately not a documented category and
    not a SelfCheckFailure: it is reported as a failure of its own kind, so the case minimiser (which keeps a
    shrunk case only while the KIND of violation persists) cannot drift from a length / equality failure into
    arguments outside the domain"""


def _build(thunk, what: str):
    try:
        return thunk()
    except Exception as e:  # noqa
        if exc_category(e) not in DOCUMENTED:
            raise
        raise ConstructorRefused(f"{what} refused arguments of the documented domain: {type(e).__name__}: {e}")


def _obs_diff(x: Dict[str, Any], y: Dict[str, Any]) -> str:
    ks = sorted(k for k in set(x) | set(y) if x.get(k) != y.get(k))
    return ", ".join(f"{k}: {json.dumps(x.get(k))[:90]} -> {json.dumps(y.get(k))[:90]}" for k in ks)


class Bystanders:
    """Further objects of the same class that nobody calls a setter on (case key "twin": "before" | "after" | "both" says
    whether they are built before or after the object under test). CFDP classes: every object is built from the ONE
    PduConfig object the caller holds (constructors are documented to leave it alone, so programs hand the same object
    to every PDU of a transaction); parameter objects (params dataclasses, lists, TLVs) are separate for every object.
    The property at (bystander, empty setter history): after every setter call on the OTHER object its reported length is
    still the number of octets it packs, the length field is right, and the whole observation (octets included) is what
    it was - the state machines of the model are per object. The caller's PduConfig keeps its values throughout."""

    def __init__(self, kind: Kind, a):
        self.kind, self.a = kind, a
        self.conf = _build(lambda: c06._conf(a), "PduConfig") if kind.shares_conf else None
        self.conf0 = None if self.conf is None else _snap_conf(self.conf)
        self.others: List[Any] = []       # (label, object, first observation)

    def make(self, label: str):
        o = _build(lambda: self.kind.ctor(self.a, self.conf), "constructor")
        self.others.append([label, o, None])

    def main(self):
        return _build(lambda: self.kind.build(self.a, self.conf), "constructor / decoder")

    def _where(self, label: str, when: str) -> str:
        shared = "from the same caller-supplied PduConfig object" if self.conf is not None else "from equal arguments"
        return f"a second object of the class built {label} the first one {shared}, never modified; {when}"

    def check(self, when: str, what: str):
        for rec in self.others:
            label, o, first = rec
            now = _obs(self.kind, o, None, self._where(label, when))
            if first is None:
                rec[2] = now
            elif now != first:
                raise SelfCheckFailure(f"{what} changed {self._where(label, when)}: {_obs_diff(first, now)}")
        if self.conf is not None and _snap_conf(self.conf) != self.conf0:
            raise SelfCheckFailure(f"{what} modified the PduConfig object the caller passed to the constructor: "
                                   f"{self.conf0!r} -> {_snap_conf(self.conf)!r}")


def _run(kind: Kind, a) -> Dict[str, Any]:
    twin = a.get("twin")
    by = None
    if twin:
        by = Bystanders(kind, a)
        if twin in ("before", "both"):
            by.make("before")
        obj = by.main()
        if twin in ("after", "both"):
            by.make("after")
    else:
        obj = _build(lambda: kind.build(a), "constructor / decoder")
    out = {"initial": _obs(kind, obj, None, "after construction", probe=True), "steps": []}
    if by is not None:
        by.check("after construction and pack() of all objects", "constructing / packing the objects")
    last = len(a["steps"]) - 1
    for i, s in enumerate(a["steps"]):
        err = None
        try:
            kind.apply(obj, s)
        except Exception as e:  # noqa
            err = exc_category(e)
            if err not in DOCUMENTED:
                raise
        when = f"after setter call #{i + 1}" + (" (refused)" if err else "")
        out["steps"].append(_obs(kind, obj, err, when, probe=i == last))
        if by is not None:
            by.check(when + " on the first object", f"setter call #{i + 1} on one object")
    return out


def _seq_op(name: str):
    def op(a):
        return _run(KINDS[name], a)
    return op


def op_selfcheck(a):
    """implementation-side only variant (kept for replay files written before the EOF / Finished / Metadata models existed)"""
    _run(KINDS[a["kind"]], a)
    return {"held": True}


# --------------------------------------------------------------------------------------------
# caller inputs
# --------------------------------------------------------------------------------------------
def _snap_conf(c: PduConfig):
    def bf(f):
        return (type(f).__name__, int(f.byte_len), int(f.value), bytes(f.as_bytes))
    return (bf(c.source_entity_id), bf(c.dest_entity_id), bf(c.transaction_seq_num), int(c.trans_mode), int(c.file_flag),
            int(c.crc_flag), int(c.direction), int(c.seg_ctrl))


def _snap_tlv(t):
    if t is None:
        return None
    if isinstance(t, FileStoreResponseTlv):
        return ("resp", int(t.action_code), int(t.status_code), t.first_file_name, t.second_file_name,
                bytes(t.filestore_msg.value), int(t.packet_len))
    return (type(t).__name__, int(t.tlv_type), bytes(t.value), int(t.packet_len))


def _snap(x):
    """a value snapshot of a caller-supplied argument (recursively; public attributes only)"""
    if x is None or isinstance(x, (int, str, bool)):
        return x
    if isinstance(x, (bytes, bytearray)):
        return (type(x).__name__, bytes(x))
    if isinstance(x, PduConfig):
        return _snap_conf(x)
    if isinstance(x, (list, tuple)):
        return (type(x).__name__, [_snap(e) for e in x])
    if isinstance(x, SegmentMetadata):
        return ("segmeta", int(x.record_cont_state), _snap(x.metadata))
    if isinstance(x, FileDataParams):
        return ("fdparams", _snap(x.file_data), int(x.offset), _snap(x.segment_metadata))
    if isinstance(x, FinishedParams):
        return ("finparams", int(x.condition_code), int(x.delivery_code), int(x.file_status),
                _snap(x.file_store_responses), _snap(x.fault_location))
    if isinstance(x, MetadataParams):
        return ("mdparams", bool(x.closure_requested), int(x.checksum_type), int(x.file_size), x.source_file_name,
                x.dest_file_name)
    if isinstance(x, (PrimaryHeader, TruncatedPrimaryHeader)):
        return ("uslphdr", c17._header_fields(x))
    if isinstance(x, TransferFrameDataField):
        return ("tfdf", c17._tfdf_fields(x))
    return _snap_tlv(x)


_CONF_KEYS = ("src_v", "src_w", "dst_v", "dst_w", "seq_v", "seq_w", "mode", "large", "crc", "dir", "segctrl")


def _caller_conf(a) -> PduConfig:
    """the caller's PduConfig as programs hold it: ONE object per configuration, handed to every constructor. The
    property says constructing and packing never modify it, so the instance used by earlier lines with the same
    values must still equal a new one (only used by ops that call no setter)."""
    conf = core.REUSE.get(["C11.PduConfig"] + [a.get(k) for k in _CONF_KEYS], lambda: c06._conf(a))
    new = _snap_conf(c06._conf(a))
    if _snap_conf(conf) != new:
        raise SelfCheckFailure(f"a PduConfig handed to constructors / pack() by earlier lines no longer holds its values: "
                               f"{new!r} -> {_snap_conf(conf)!r}")
    return conf


def _inputs_builders():
    """kind -> function(a) -> (list of caller-supplied argument objects, constructor thunk)"""
    def cfdp(mk):
        def b(a):
            conf = _caller_conf(a)
            args, ctor = mk(a, conf)
            return [conf] + args, ctor
        return b

    def ack(a, conf):
        return [], lambda: AckPdu(conf, DirectiveType(a["acked"]), ConditionCode(a["cond"]), TransactionStatus(a["tstatus"]))

    def prompt(a, conf):
        return [], lambda: PromptPdu(conf, ResponseRequired(a["resp"]))

    def ka(a, conf):
        return [], lambda: KeepAlivePdu(conf, a["progress"])

    def nak(a, conf):
        segs = _seglist(a["segs"])
        return [segs], lambda: NakPdu(conf, a["start"], a["end"], segs)

    def eof(a, conf):
        cks = bytearray(unhx(a["checksum"])) if a.get("mutable") else unhx(a["checksum"])
        fl = c6v._fault(a["fault"])
        return [cks, fl], lambda: EofPdu(conf, cks, a["size"], fl, c6v._enum(ConditionCode, a["cond"]))

    def finished(a, conf):
        rs = None if a.get("none_responses") else [c6v._fsresp(r) for r in a["responses"]]
        params = FinishedParams(c6v._enum(ConditionCode, a["cond"]), DeliveryCode(a["delivery"]), FileStatus(a["status"]),
                                rs, c6v._fault(a["fault"]))
        return [params], lambda: FinishedPdu(conf, params)

    def metadata(a, conf):
        params = MetadataParams(bool(a["closure"]), c6v._enum(ChecksumType, a["ctype"]), a["size"], c6v._opt_name(a["src"]),
                                c6v._opt_name(a["dst"]))
        opts = c6v._options(a["options"])
        return [params, opts], lambda: MetadataPdu(conf, params, opts)

    def fd(a, conf):
        data = bytearray(_data(a["data"])) if a.get("mutable") else _data(a["data"])
        params = FileDataParams(data, a["offset"], _meta(a))
        return [params], lambda: FileDataPdu(conf, params)

    def tc(a):
        data = bytearray(unhx(a["data"])) if a.get("mutable") else unhx(a["data"])
        return [data], lambda: PusTc(service=a["service"], subservice=a["subservice"], apid=a["apid"], app_data=data,
                                     seq_count=a["count"], source_id=a["source_id"], ack_flags=a["ack"])

    def tm(a):
        data = bytearray(unhx(a["data"])) if a.get("mutable") else unhx(a["data"])
        ts = bytearray(unhx(a["timestamp"])) if a.get("mutable") else unhx(a["timestamp"])
        return [data, ts], lambda: PusTm(service=a["service"], subservice=a["subservice"], timestamp=ts, source_data=data,
                                         apid=a["apid"], seq_count=a["count"], message_counter=a["msg_counter"],
                                         space_time_ref=a["time_ref"], destination_id=a["dest_id"],
                                         packet_version=a["version"])

    def frame(a):
        hdr = c17._header(a["hdr"])
        tfdz = bytearray(unhx(a["tfdf"]["tfdz"])) if a.get("mutable") else unhx(a["tfdf"]["tfdz"])
        iz, ocf, fecf = c17._opt(a["iz"]), c17._opt(a["ocf"]), c17._opt(a["fecf"])

        def ctor():
            tfdf = TransferFrameDataField(c17._rules(a["tfdf"]["rules"]), c17._upid(a["tfdf"]["upid"]), tfdz,
                                          a["tfdf"]["fhp"])
            return TransferFrame(hdr, tfdf, iz, ocf, fecf)
        return [hdr, tfdz, iz, ocf, fecf], ctor

    return {"ack": cfdp(ack), "prompt": cfdp(prompt), "keepalive": cfdp(ka), "nak": cfdp(nak), "eof": cfdp(eof),
            "finished": cfdp(finished), "metadata": cfdp(metadata), "filedata": cfdp(fd), "tc": tc, "tm": tm,
            "frame": frame}


INPUT_BUILDERS = _inputs_builders()


def op_inputs(a):
    """construct and pack (twice): every caller-supplied argument object is afterwards what it was before"""
    args, ctor = _build(lambda: INPUT_BUILDERS[a["kind"]](a), "argument constructors")
    before = [_snap(x) for x in args]
    obj = _build(ctor, "constructor")
    after_ctor = [_snap(x) for x in args]
    if after_ctor != before:
        i = next(i for i in range(len(before)) if before[i] != after_ctor[i])
        raise SelfCheckFailure(f"the constructor modified caller-supplied argument #{i}: {before[i]!r} -> {after_ctor[i]!r}")
    packer = (lambda: obj.pack(truncated=obj.header.truncated())) if a["kind"] == "frame" else obj.pack
    try:
        # twice, the caller modifying the buffer the first call returned in between (SelfCheckFailure if the octets differ)
        r1 = r2 = core.pack_stable(obj, f"{type(obj).__name__}.pack()", packer=packer)
    except SelfCheckFailure:
        raise
    except Exception as e:  # noqa
        if exc_category(e) not in DOCUMENTED:
            raise
        r1 = r2 = None
    after_pack = [_snap(x) for x in args]
    if after_pack != before:
        i = next(i for i in range(len(before)) if before[i] != after_pack[i])
        raise SelfCheckFailure(f"pack() modified caller-supplied argument #{i}: {before[i]!r} -> {after_pack[i]!r}")
    if r1 != r2:
        raise SelfCheckFailure("pack() twice gives different octets")
    return {"untouched": True}


def op_conf(a):
    """the object's direction and the caller's configuration after construction and pack()"""
    conf = _build(lambda: _caller_conf(a), "PduConfig")
    before = _snap_conf(conf)
    if a["kind"] == "nak":
        p = _build(lambda: NakPdu(conf, 0, 0, []), "constructor")
    elif a["kind"] == "keepalive":
        p = _build(lambda: KeepAlivePdu(conf, 0), "constructor")
    elif a["kind"] == "eof":
        p = _build(lambda: EofPdu(conf, bytes(4), 0), "constructor")
    elif a["kind"] == "finished":
        p = _build(lambda: FinishedPdu(conf, FinishedParams(ConditionCode.NO_ERROR, DeliveryCode(0), FileStatus(0))), "constructor")
    elif a["kind"] == "metadata":
        p = _build(lambda: MetadataPdu(conf, MetadataParams(False, ChecksumType(0), 0, None, None)), "constructor")
    else:
        p = _build(lambda: FileDataPdu(conf, FileDataParams.empty()), "constructor")
    if _snap_conf(conf) != before:
        raise SelfCheckFailure(f"the constructor modified the caller's PduConfig: {before!r} -> {_snap_conf(conf)!r}")
    p.pack()
    if _snap_conf(conf) != before:
        raise SelfCheckFailure(f"pack() modified the caller's PduConfig: {before!r} -> {_snap_conf(conf)!r}")
    s, d, q = conf.source_entity_id, conf.dest_entity_id, conf.transaction_seq_num
    return {"obj_dir": int(p.pdu_header.direction),
            "caller": {"src_w": int(s.byte_len), "src_v": int(s.value), "dst_w": int(d.byte_len), "dst_v": int(d.value),
                       "seq_w": int(q.byte_len), "seq_v": int(q.value), "mode": int(conf.trans_mode),
                       "large": int(conf.file_flag), "crc": int(conf.crc_flag), "dir": int(conf.direction),
                       "segctrl": int(conf.seg_ctrl)}}


OPS = {"c11_tc": _seq_op("tc"), "c11_tm": _seq_op("tm"), "c11_nak": _seq_op("nak"), "c11_ka": _seq_op("ka"),
       "c11_fd": _seq_op("fd"), "c11_frame": _seq_op("frame"), "c11_eof": _seq_op("eof"), "c11_fin": _seq_op("finished"),
       "c11_md": _seq_op("metadata"), "c11_selfcheck": op_selfcheck,
       "c11_inputs": op_inputs, "c11_conf": op_conf}


# --------------------------------------------------------------------------------------------
# generators
# --------------------------------------------------------------------------------------------
def rdata(rng: random.Random, n: int):
    """small strings as hex (random content), long ones as a fill pattern (short op lines)"""
    return hx(rbytes(rng, n)) if n <= 300 else fill(n, rng.randint(0, 255))


SMALL_LENS = [0, 0, 1, 2, 3, 7, 8, 16, 63, 64, 255, 256]


class Gen:
    """per kind: initial arguments, one random step, a small pool of steps for exhaustive short sequences,
    and boundary sequences around the largest accepted argument"""

    def init(self, rng, **fix): raise NotImplementedError
    def step(self, rng, a, big: float): raise NotImplementedError
    def pool(self, rng, a) -> List[Dict[str, Any]]: raise NotImplementedError
    def boundary(self, rng, a) -> List[List[Dict[str, Any]]]: return []


class TcGen(Gen):
    MAX = 65535 - 6          # data_len = 5 + n + 1 <= 65535

    def init(self, rng, **fix):
        a = c02.rand_args(rng)
        a["via_unpack"] = fix.get("via", rng.random() < 0.3)
        return a

    def step(self, rng, a, big):
        r = rng.random()
        if r < big:
            n = rng.choice([self.MAX, self.MAX + 1, self.MAX - 1, 65535, 65536, 70000])
        else:
            n = rng.choice(SMALL_LENS + [rng.randint(0, 300)])
        return {"data": rdata(rng, n)}

    def pool(self, rng, a):
        return [{"data": ""}, {"data": hx(rbytes(rng, 1))}, {"data": hx(rbytes(rng, 9))}, {"data": fill(self.MAX + 1)},
                {"data": hx(rbytes(rng, 256))}]

    def boundary(self, rng, a):
        M = self.MAX
        return [[{"data": fill(M, 0xA5)}, {"data": fill(M + 1)}, {"data": "01"}],
                [{"data": fill(M + 1)}, {"data": fill(M - 1, 1)}, {"data": fill(70000)}, {"data": fill(M)}],
                [{"data": fill(65536)}, {"data": ""}]]


class TmGen(Gen):
    def mx(self, a): return 65535 - 8 - len(unhx(a["timestamp"]))

    def init(self, rng, **fix):
        a = c03.rand_args(rng)
        a["via_unpack"] = fix.get("via", rng.random() < 0.3)
        return a

    def step(self, rng, a, big):
        M = self.mx(a)
        if rng.random() < big:
            n = rng.choice([M, M + 1, M - 1, 65535, 65536, 70000])
        else:
            n = rng.choice(SMALL_LENS + [rng.randint(0, 300)])
        return {"data": rdata(rng, n)}

    def pool(self, rng, a):
        return [{"data": ""}, {"data": hx(rbytes(rng, 1))}, {"data": hx(rbytes(rng, 9))}, {"data": fill(self.mx(a) + 1)},
                {"data": hx(rbytes(rng, 256))}]

    def boundary(self, rng, a):
        M = self.mx(a)
        return [[{"data": fill(M, 0x5A)}, {"data": fill(M + 1)}, {"data": "01"}],
                [{"data": fill(M + 1)}, {"data": fill(M - 1, 1)}, {"data": fill(70000)}, {"data": fill(M)}]]


def nak_max(large: int, crc: int) -> int:
    per, base = (16, 16) if large else (8, 8)
    return (65535 - 1 - base - (2 if crc else 0)) // per


class NakGen(Gen):
    def init(self, rng, **fix):
        a = c06.rand_conf(rng, **{k: v for k, v in fix.items() if k in ("crc", "large", "idw", "sw")})
        a.update(start=c06.fss_val(rng, a["large"]), end=c06.fss_val(rng, a["large"]),
                 segs=rng.choice([None, [], c06.rand_segs(rng, a["large"], rng.randint(1, 5))]),
                 via_unpack=fix.get("via", rng.random() < 0.3))
        return a

    def seg_step(self, rng, n: int, large_vals: bool):
        if n <= 12:
            return {"set": "segs", "segs": c06.rand_segs(rng, 1 if large_vals else 0, n)}
        return {"set": "segs", "segs": {"fill": [rng.randint(0, U32), rng.randint(0, U32)], "n": n}}

    def step(self, rng, a, big):
        r = rng.random()
        if r < 0.3:
            return {"set": "large", "large": rng.randint(0, 1)}
        if r < 0.3 + big:
            m0, m1 = nak_max(0, a["crc"]), nak_max(1, a["crc"])
            return self.seg_step(rng, rng.choice([m1, m1 + 1, m0, m0 + 1, m0 - 1, 9000]), False)
        if r < 0.4 + big:
            return {"set": "segs", "segs": None}
        return self.seg_step(rng, rng.choice([0, 1, 1, 2, 3, 5, 12]), rng.random() < 0.15)

    def pool(self, rng, a):
        return [{"set": "large", "large": 0}, {"set": "large", "large": 1}, {"set": "segs", "segs": []},
                self.seg_step(rng, 2, False), self.seg_step(rng, nak_max(0, a["crc"]) + 1, False)]

    def boundary(self, rng, a):
        m0, m1 = nak_max(0, a["crc"]), nak_max(1, a["crc"])
        L0, L1 = {"set": "large", "large": 0}, {"set": "large", "large": 1}
        return [[L0, self.seg_step(rng, m0, False), L1, self.seg_step(rng, 1, False), L1],
                [L1, self.seg_step(rng, m1, False), self.seg_step(rng, m1 + 1, False), L0, self.seg_step(rng, m0 + 1, False)],
                [L0, self.seg_step(rng, m1 + 1, False), L1, {"set": "segs", "segs": None}, L1]]


class KaGen(Gen):
    def init(self, rng, **fix):
        a = c06.rand_conf(rng, **{k: v for k, v in fix.items() if k in ("crc", "large", "idw", "sw")})
        a.update(progress=c06.fss_val(rng, a["large"] if rng.random() < 0.8 else 1),
                 via_unpack=fix.get("via", rng.random() < 0.3))
        if a["via_unpack"] and not a["large"]:
            a["progress"] &= U32
        return a

    def step(self, rng, a, big): return {"large": rng.randint(0, 1)}
    def pool(self, rng, a): return [{"large": 0}, {"large": 1}]


class FdGen(Gen):
    def mx(self, a, meta_len: Optional[int]) -> int:
        return 65535 - (8 if a["large"] else 4) - (2 if a["crc"] else 0) - (0 if meta_len is None else 1 + meta_len)

    def init(self, rng, **fix):
        conf = c07.rand_conf(rng, **{k: v for k, v in fix.items() if k in ("crc", "large", "idw", "seqw")})
        a = c07.rand_args(rng, conf)
        a["via_unpack"] = fix.get("via", rng.random() < 0.3)
        return a

    def meta_step(self, rng, ln: Optional[int]):
        if ln is None:
            return {"set": "meta", "meta": None, "state": None}
        return {"set": "meta", "meta": hx(rbytes(rng, ln)), "state": rng.randint(0, 3)}

    def step(self, rng, a, big):
        r = rng.random()
        if r < 0.5:
            if rng.random() < big:
                M = self.mx(a, None)
                n = rng.choice([M, M + 1, M - 1, M - 64, M - 30, 65535, 65536, 70000])
            else:
                n = rng.choice(SMALL_LENS + [rng.randint(0, 300)])
            return {"set": "data", "data": rdata(rng, n)}
        if r < 0.65:
            return self.meta_step(rng, None)
        if r < 0.65 + big / 2:
            return self.meta_step(rng, rng.choice([64, 65, 100, 255]))      # beyond 63: stored, pack() refuses
        return self.meta_step(rng, rng.choice(c07.META_LENS + [rng.randint(0, 63)]))

    def pool(self, rng, a):
        return [{"set": "data", "data": ""}, {"set": "data", "data": hx(rbytes(rng, 5))},
                {"set": "data", "data": fill(self.mx(a, None) + 1)}, self.meta_step(rng, None), self.meta_step(rng, 0),
                self.meta_step(rng, 7)]

    def boundary(self, rng, a):
        M = self.mx(a, None)
        D = lambda n, b=0: {"set": "data", "data": fill(n, b)}  # noqa
        return [[D(M, 0xC3), D(M + 1), self.meta_step(rng, 0), self.meta_step(rng, None), D(3)],
                [self.meta_step(rng, 63), D(M - 64, 7), D(M - 63), self.meta_step(rng, None), D(M - 63), self.meta_step(rng, 1)],
                [D(70000), self.meta_step(rng, 5), D(M - 6), D(M - 5), self.meta_step(rng, 6), self.meta_step(rng, 4)]]


class FrameGen(Gen):
    def init(self, rng, **fix):
        rules = fix.get("rules", rng.randint(0, 7))
        truncated = fix.get("truncated", rules in c17.VP_RULES and rng.random() < 0.25)
        ocf = False if truncated else fix.get("ocf", rng.random() < 0.4)
        f, _ft = c17.wf_frame(rng, rules, truncated, rng.choice([None, None, 0, 1, 5]), ocf, rng.choice([None, 2, 4]),
                              rng.choice([0, 1, 2, 3, 9, 40]))
        if f["hdr"]["kind"] == "primary" and rng.random() < 0.5:
            f["hdr"]["frame_len"] = rng.randint(0, 65535)      # not yet set by the caller
        f["via_unpack"] = False
        return f

    def mx(self, a) -> int:
        hl = 1 if a["tfdf"]["fhp"] is None else 3
        return USLP_TFDF_MAX_SIZE - 2 * hl

    def step(self, rng, a, big):
        r = rng.random()
        if r < 0.4:
            return {"set": "frame_len"}
        if r < 0.4 + big:
            M = self.mx(a)
            return {"set": "tfdz", "tfdz": rdata(rng, rng.choice([M, M + 1, M - 1, M - 8, M - 16, 65536, 70000]))}
        return {"set": "tfdz", "tfdz": rdata(rng, rng.choice(SMALL_LENS + [rng.randint(0, 300)]))}

    def pool(self, rng, a):
        return [{"set": "frame_len"}, {"set": "tfdz", "tfdz": ""}, {"set": "tfdz", "tfdz": hx(rbytes(rng, 3))},
                {"set": "tfdz", "tfdz": fill(self.mx(a) + 1)}, {"set": "tfdz", "tfdz": hx(rbytes(rng, 300))}]

    def len_boundary(self, a):
        """data zones that make the whole frame exactly 65535..65538 octets long: the 16-bit frame length field
        holds len() - 1, so 65536 octets is the largest frame whose length can be set"""
        if a["hdr"]["kind"] != "primary":
            return []
        hl = 1 if a["tfdf"]["fhp"] is None else 3
        fixed = 7 + a["hdr"]["vcf_len"] + hl + sum(len(a[k]) // 2 for k in ("iz", "ocf", "fecf") if a[k] is not None)
        S = {"set": "frame_len"}
        seq = []
        for total in (65536, 65537, 65535, 65538):
            n = total - fixed
            if 0 <= n <= self.mx(a):
                seq += [{"set": "tfdz", "tfdz": fill(n, total & 0xFF)}, S]
        return [seq] if seq else []

    def boundary(self, rng, a):
        M = self.mx(a)
        T = lambda n, b=0: {"set": "tfdz", "tfdz": fill(n, b)}  # noqa
        S = {"set": "frame_len"}
        return [[T(M, 0x3C), S, T(M + 1), S, T(2), S], [T(70000), S, T(M - 20), S, T(M - 3), S, T(1)],
                [S, T(M - 8), S, T(M - 12), S]]


def _fault_arg(rng):
    # entity IDs have 1, 2, 4 or 8 octets (EntityIdTlv.__eq__ converts them to integer fields of these widths)
    return rng.choice([None, hx(c6v.rand_fault(rng))])


BIG_RESP = {"action": 0, "status": 0, "first": hx(b"a" * 200), "second": "", "msg": hx(bytes(40))}      # a 245-octet TLV
BIG_OPT = {"kind": "generic", "type": 2, "value": hx(bytes([3]) * 255)}                                 # a 257-octet TLV


class EofGen(Gen):
    def init(self, rng, **fix):
        a = c06.rand_conf(rng, **{k: v for k, v in fix.items() if k in ("crc", "large", "idw", "sw")})
        a.update(checksum=hx(c6v.rand_checksum(rng)), size=c06.fss_val(rng, a["large"]), fault=_fault_arg(rng),
                 cond=rng.choice(c06.COND_MEMBERS), via_unpack=fix.get("via", rng.random() < 0.3))
        return a

    def step(self, rng, a, big): return {"set": "fault", "v": _fault_arg(rng)}

    def pool(self, rng, a):
        return [{"set": "fault", "v": None}, {"set": "fault", "v": "07"}, {"set": "fault", "v": hx(c6v.rand_fault(rng, 8))},
                {"set": "fault", "v": hx(c6v.rand_fault(rng, 2))}]


class FinishedGen(Gen):
    def init(self, rng, **fix):
        a = c06.rand_conf(rng, **{k: v for k, v in fix.items() if k in ("crc", "large", "idw", "sw")})
        a.update(cond=rng.choice(c06.COND_MEMBERS), delivery=rng.randint(0, 1), status=rng.randint(0, 3),
                 responses=rng.choice([[], [], [c6v.rand_resp(rng) for _ in range(rng.randint(1, 3))]]), fault=_fault_arg(rng),
                 via_unpack=fix.get("via", rng.random() < 0.3))
        if a["via_unpack"] and a["cond"] in c6v.NO_FAULT_CONDS:
            a["fault"] = None          # a fault location that is not packed cannot come back from the decoder
        return a

    def step(self, rng, a, big):
        r = rng.random()
        if r < 0.3:
            return {"set": "fault", "v": _fault_arg(rng)}
        if r < 0.5:
            return {"set": "cond", "v": rng.choice(c06.COND_MEMBERS + [0, 0, 11, 11])}
        if r < 0.5 + big:
            return {"set": "responses", "v": {"fill": BIG_RESP, "n": rng.choice([250, 267, 268, 300])}}
        return {"set": "responses", "v": rng.choice([None, [], [c6v.rand_resp(rng) for _ in range(rng.randint(1, 4))]])}

    def pool(self, rng, a):
        return [{"set": "fault", "v": None}, {"set": "fault", "v": "0102"}, {"set": "cond", "v": 0}, {"set": "cond", "v": 4},
                {"set": "responses", "v": []}, {"set": "responses", "v": [c6v.rand_resp(rng)]},
                {"set": "responses", "v": {"fill": BIG_RESP, "n": 300}}]

    def boundary(self, rng, a):
        R = lambda n, then=(): {"set": "responses", "v": {"fill": BIG_RESP, "n": n, "then": list(then)}}  # noqa
        F = {"set": "fault", "v": hx(bytes([9]) * 8)}            # 10 octets
        C = lambda c: {"set": "cond", "v": c}  # noqa
        # 267 x 245 + 108 octets of responses: data field 65525 (65527 with CRC) - a fault location of 10 octets
        # fits exactly without CRC and is refused with CRC, whichever setter makes it count
        near = c6v.resp_of_len(rng, 108)
        return [[R(267), C(4), F, R(268), C(0), F, C(4), {"set": "responses", "v": None}, F],
                [C(0), F, R(267, [near]), C(4), C(11), {"set": "fault", "v": None}, C(4), F, R(267), F, R(267, [near]), C(0)]]


def _rand_opts(rng):
    if rng.random() < 0.3:
        return None
    return c6v.rand_options(rng, rng.randint(0, 3))


def _rand_name(rng):
    if rng.random() < 0.15:
        return None
    return hx(rng.choice([c6v.rand_name(rng), c6v.name_exact(rng, 255), b"a", b""]))


class MetadataGen(Gen):
    def init(self, rng, **fix):
        a = c06.rand_conf(rng, **{k: v for k, v in fix.items() if k in ("crc", "large", "idw", "sw")})
        a.update(closure=bool(rng.randint(0, 1)), ctype=rng.choice(c6v.CHECKSUM_TYPES), size=c06.fss_val(rng, a["large"]),
                 src=_rand_name(rng), dst=_rand_name(rng), options=_rand_opts(rng), via_unpack=fix.get("via", rng.random() < 0.3))
        return a

    def step(self, rng, a, big):
        r = rng.random()
        if r < 0.3:
            return {"set": "src", "v": _rand_name(rng) if rng.random() > big else hx(b"x" * 256)}
        if r < 0.6:
            return {"set": "dst", "v": _rand_name(rng) if rng.random() > big else hx(b"y" * 300)}
        if r < 0.6 + big:
            return {"set": "options", "v": {"fill": BIG_OPT, "n": rng.choice([253, 254, 255, 256, 300])}}
        return {"set": "options", "v": _rand_opts(rng)}

    def pool(self, rng, a):
        return [{"set": "src", "v": None}, {"set": "src", "v": hx(b"ab")}, {"set": "dst", "v": hx(b"c" * 255)},
                {"set": "dst", "v": hx(b"d" * 256)}, {"set": "options", "v": None},
                {"set": "options", "v": [c6v.rand_option(rng)]}, {"set": "options", "v": {"fill": BIG_OPT, "n": 256}}]

    def boundary(self, rng, a):
        O = lambda n: {"set": "options", "v": {"fill": BIG_OPT, "n": n}}  # noqa
        return [[{"set": "src", "v": hx(b"s")}, {"set": "dst", "v": hx(b"d")}, O(254), {"set": "dst", "v": hx(b"y" * 255)},
                 {"set": "src", "v": hx(b"x" * 255)}, {"set": "src", "v": hx(b"x" * 200)}, O(255), O(253),
                 {"set": "dst", "v": hx(b"y" * 255)}, {"set": "src", "v": hx(b"z" * 255)}, O(254), {"set": "src", "v": None}]]


GENS: Dict[str, Gen] = {"tc": TcGen(), "tm": TmGen(), "nak": NakGen(), "ka": KaGen(), "fd": FdGen(), "frame": FrameGen(),
                        "eof": EofGen(), "finished": FinishedGen(), "metadata": MetadataGen()}


# every ordered pair of distinct entity-ID widths as consecutive elements of one closed walk
WIDTH_CYCLE = [1, 2, 1, 4, 1, 8, 2, 4, 2, 8, 4, 8]
WIDE_CYCLE = [2, 4, 2, 8, 4, 8]           # the same for values that need two octets


def width_walk(rng, cycle=WIDTH_CYCLE) -> List[int]:
    k = rng.randrange(len(cycle))
    return [cycle[(k + i) % len(cycle)] for i in range(len(cycle) + 1)]


def idhex(v: int, w: int) -> str:
    return hx(v.to_bytes(w, "big"))


def recoded_id_walks(rng) -> List[List[str]]:
    """sequences of entity IDs that all hold the same number (`EntityIdTlv.__eq__` compares the number only) in
    another width each time: a one-octet value through every ordered pair of 1/2/4/8 octets, a two-octet value
    through every ordered pair of 2/4/8"""
    v1 = rng.choice([0, 1, 5, 0x7F, 0xFF, rng.randint(0, 255)])
    v2 = rng.choice([0x0100, 0xFFFF, rng.randint(256, 65535)])
    return [[idhex(v1, w) for w in width_walk(rng)], [idhex(v2, w) for w in width_walk(rng, WIDE_CYCLE)]]


def _has_big_fill(v) -> bool:
    if isinstance(v, dict):
        return ("fill" in v and v.get("n", 0) > 200) or any(_has_big_fill(x) for x in v.values())
    return isinstance(v, list) and any(_has_big_fill(x) for x in v)


def seq_case(name: str, a: Dict[str, Any], steps: List[Dict[str, Any]], tag: str) -> Case:
    kind = KINDS[name]
    op = dict(a)
    op["op"] = kind.op
    op["steps"] = steps
    if not kind.modelled:
        op["kind"] = name     # implementation-side only kinds (none at present)
    return Case(op, "valid", tag=f"{name}-{tag}")


def fixes_for(name: str, thorough: bool) -> List[Dict[str, Any]]:
    """the configurations every generator family is run over"""
    if name in ("tc", "tm"):
        return [{"via": False}, {"via": True}]
    if name == "frame":
        out = [{"rules": r, "truncated": False} for r in range(8)] + [{"rules": r, "truncated": True} for r in c17.VP_RULES]
        return out if thorough else out[::2] + [out[-1]]
    out = []
    for crc in (0, 1):
        for large in (0, 1):
            for via in ((False, True) if thorough else (crc == large,)):
                out.append({"crc": crc, "large": large, "via": via})
    return out


class C11(Prop):
    id = "C11"
    title = "Lengths track mutations, pack is repeatable, caller inputs are not modified"
    lean_modules = ["SpVerif.Props.C11"]
    exhaustive_note = ("every sequence of length 1..3 (thorough: 1..4) over a pool of 2-7 setter calls per class "
                       "(small arguments, clearing arguments and one refused oversized argument) for every class x "
                       "{CRC, large file} / {from constructor, from decoder} / construction rule; all 512 header "
                       "configurations through the six mutable CFDP constructors for the caller's PduConfig; every ordered pair of "
                       "entity-ID widths (same number) as consecutive EOF / Finished fault locations under every condition "
                       "code; every pool call (NAK / Keep Alive: every pair) with bystander objects for every caller direction "
                       "x large file flag")
    trusted_base = [
        "object identity and aliasing are outside a functional model: 'the caller's objects are not modified' is carried by "
        "the tie (value snapshots of every caller-supplied PduConfig / params dataclass / TLV list / bytes before and after "
        "constructor and pack(); bystander objects built from the same PduConfig object re-observed after every setter call "
        "on another object)",
        "the filestore-response TLV cache is modelled as a record of what pack() caches (no documented setter mutates a TLV "
        "object); caches inside Metadata option objects are not modelled (== against a deep copy taken before pack() is "
        "checked on the real objects)",
    ]
    assumptions = ["setter arguments are of the documented types (octet strings, enum members, TLV objects, lists)"]

    def impl_ops(self):
        return OPS

    def nontrivial(self, c):
        return bool(c.op.get("steps")) or c.op["op"] in ("c11_inputs", "c11_conf")

    def table_sync(self):
        d = []
        for name, got, want in [("USLP_TFDF_MAX_SIZE", USLP_TFDF_MAX_SIZE, 65529), ("CCSDS_HEADER_LEN", CCSDS_HEADER_LEN, 6),
                                ("PUS_C_SEC_HEADER_LEN", PusTcDataFieldHeader.PUS_C_SEC_HEADER_LEN, 5),
                                ("PusTmSecondaryHeader.MIN_LEN", PusTmSecondaryHeader.MIN_LEN, 7),
                                ("LargeFileFlag.LARGE", int(LargeFileFlag.LARGE), 1), ("CrcFlag.WITH_CRC", int(CrcFlag.WITH_CRC), 1)]:
            if got != want:
                d.append(f"{name}: module {got}, model {want}")
        return d

    def cases(self, rng: random.Random, tier: str) -> Iterator[Case]:
        thorough = tier == "thorough"
        max_len = 40 if thorough else 12
        n_rand = 60 if thorough else 10
        ex_len = 4 if thorough else 3
        for name, g in GENS.items():
            fixes = fixes_for(name, thorough)
            # 1. boundary sequences: largest accepted argument, one more (refused), and going on afterwards
            for fx in (fixes if thorough else [rng.choice(fixes)]):
                a = g.init(rng, **fx)
                bseqs = g.boundary(rng, a)
                if not thorough and len(bseqs) > 2:
                    bseqs = rng.sample(bseqs, 2)        # quick: two of the boundary sequences (the seed decides which)
                for steps in bseqs:
                    yield seq_case(name, a, steps, "boundary")
            if name == "frame":
                # the frame length field at its limit, with trailer parts (insert zone / OCF / FECF) present so that the
                # data zone bound alone does not already stop the frame from growing past 65536 octets
                for i in range(6 if thorough else 2):
                    a = g.init(rng, truncated=False, ocf=bool(i % 2))
                    if a["iz"] is None and a["fecf"] is None and a["ocf"] is None:
                        a["fecf"] = "a1b2"
                    for steps in g.len_boundary(a):
                        yield seq_case(name, a, steps, "frame-len-boundary")
            # 2. exhaustive short sequences over a small pool
            for fx in fixes:
                a = g.init(rng, **fx)
                pool = g.pool(rng, a)
                budget = 700 if thorough else 250          # sequences of the longest length per configuration
                lim = ex_len
                while lim > 1 and len(pool) ** lim > budget:
                    lim -= 1
                for n in range(1, lim + 1):
                    for combo in itertools.product(pool, repeat=n):
                        yield seq_case(name, a, list(combo), f"exhaustive{n}")
                if lim < ex_len:
                    for _ in range(200 if thorough else 60):
                        yield seq_case(name, a, [rng.choice(pool) for _ in range(ex_len)], f"exhaustive{ex_len}-sample")
            # 3. random sequences of length 1..max_len (refused calls included with low probability)
            for fx in fixes:
                for i in range(n_rand):
                    a = g.init(rng, **fx)
                    n = rng.randint(1, max_len)
                    big = rng.choice([0.0, 0.05, 0.12] if thorough else [0.0, 0.0, 0.0, 0.08])
                    yield seq_case(name, a, [g.step(rng, a, big) for _ in range(n)], "random")
        # 3b. arguments equal (==) to the value they replace, encoded differently
        yield from self.recoded_cases(rng, thorough)
        # 3c. the same sequences while other objects built from the same caller configuration exist
        yield from self.twin_cases(rng, thorough)
        # 4. caller inputs: all 512 header configurations through the three modelled constructors
        for kind in ("nak", "keepalive", "filedata", "eof", "finished", "metadata"):
            for a in c06.all_confs(rng):
                if not thorough and rng.random() < 0.5:
                    continue
                yield Case({"op": "c11_conf", "kind": kind, **a}, "valid", tag=f"conf-{kind}")
        # 5. caller inputs: every constructor + pack(), every caller-supplied object value-compared
        for _ in range(60 if thorough else 12):
            for kind in INPUT_BUILDERS:
                yield Case({"op": "c11_inputs", "kind": kind, **self.input_args(kind, rng)}, "valid", tag=f"inputs-{kind}")

    def recoded_cases(self, rng: random.Random, thorough: bool) -> Iterator[Case]:
        """setter arguments that compare equal (==) to the value they replace but encode differently: entity IDs with the
        same number in another width, as EOF / Finished fault location under every condition code (Finished: every code
        that packs the fault location, and sequences that change the code in between) and inside Metadata options"""
        fault_conds = [c for c in c06.COND_MEMBERS if c not in c6v.NO_FAULT_CONDS]
        F = lambda h: {"set": "fault", "v": h}  # noqa
        for name, conds in (("finished", fault_conds), ("eof", c06.COND_MEMBERS)):
            g, fixes = GENS[name], fixes_for(name, thorough)
            for cond in conds:
                for fx in (fixes if thorough else [rng.choice(fixes)]):
                    for walk in recoded_id_walks(rng):
                        a = g.init(rng, **fx)
                        a["cond"] = cond
                        if rng.random() < 0.3 and not a["via_unpack"]:
                            a["fault"] = None                  # the first value comes from a setter call too
                            steps = [F(h) for h in walk]
                        else:
                            a["fault"] = walk[0]               # the first value comes from the constructor / decoder
                            steps = [F(h) for h in walk[1:]]
                        yield seq_case(name, a, steps, "same-id-other-width")
        # Finished: the condition code decides whether the fault location is packed; it changes between the assignments
        g, fixes = GENS["finished"], fixes_for("finished", thorough)
        C = lambda c: {"set": "cond", "v": c}  # noqa
        for fx in (fixes if thorough else rng.sample(fixes, 2)):
            for walk in recoded_id_walks(rng):
                a = g.init(rng, **fx)
                off, on = rng.choice(c6v.NO_FAULT_CONDS), rng.choice(fault_conds)
                a["cond"] = off
                a["fault"] = None if a["via_unpack"] else walk[0]
                steps = []
                for i, h in enumerate(walk[1:]):
                    steps.append(F(h))
                    if i % 3 == 0:
                        steps.append(C(on))
                    elif i % 3 == 2:
                        steps.append(C(rng.choice([off, off, rng.choice(fault_conds)])))
                    if i == 5:
                        steps += [F(None), F(h)]
                yield seq_case("finished", a, steps, "same-id-other-width-cond")
        # Metadata options: lists whose entity-ID elements compare equal to those they replace
        g, fixes = GENS["metadata"], fixes_for("metadata", thorough)
        E = lambda h: {"kind": "entity_id", "value": h}  # noqa
        for fx in (fixes if thorough else rng.sample(fixes, 2)):
            for walk in recoded_id_walks(rng):
                a = g.init(rng, **fx)
                other = c6v.rand_option(rng)
                mixed = rng.random() < 0.5
                opts = (lambda h: [other, E(h)]) if mixed else (lambda h: [E(h)])  # noqa
                a["options"] = opts(walk[0])
                yield seq_case("metadata", a, [{"set": "options", "v": opts(h)} for h in walk[1:]], "same-id-other-width")

    def twin_cases(self, rng: random.Random, thorough: bool) -> Iterator[Case]:
        """key "twin" (not read by the model op): further objects of the class exist while the setters are called - see
        Bystanders. CFDP classes: every caller direction x large file flag (the classes force their direction; the file
        flag setters change it) x CRC flag"""
        modes = ["before", "after", "both"]
        k = rng.randrange(3)
        for name, g in GENS.items():
            kind = KINDS[name]
            flag_setter = name in ("nak", "ka")
            if flag_setter:
                confs = [{"crc": c, "large": lg, "dir": d} for d in (0, 1) for lg in (0, 1) for c in (0, 1)]
            elif kind.shares_conf:
                confs = [{"crc": rng.randint(0, 1), "large": lg, "dir": d} for d in (0, 1) for lg in (0, 1)]
            else:
                confs = [{}, {}]
            if thorough:
                confs = confs * 3
            for fx in confs:
                a = g.init(rng, via=thorough and rng.random() < 0.2, **{x: v for x, v in fx.items() if x != "dir"})
                if "dir" in fx:
                    a["dir"] = fx["dir"]
                pool = g.pool(rng, a)
                if not (flag_setter or thorough):
                    pool = [s for s in pool if not _has_big_fill(s)]     # quick: the model is slow on 64 KiB arguments
                seqs = [[s] for s in pool]
                if flag_setter or thorough:
                    seqs += [list(c) for c in itertools.product(pool, repeat=2)]
                for _ in range(6 if thorough else 2):
                    seqs.append([g.step(rng, a, rng.choice([0.0, 0.0, 0.08]) if thorough else 0.0) for _ in range(rng.randint(2, 8))])
                for steps in seqs:
                    c = seq_case(name, a, steps, "bystander")
                    c.op["twin"] = modes[k % 3]
                    k += 1
                    yield c

    def input_args(self, kind: str, rng: random.Random) -> Dict[str, Any]:
        mutable = rng.random() < 0.5
        if kind == "tc":
            return {**c02.rand_args(rng), "mutable": mutable}
        if kind == "tm":
            return {**c03.rand_args(rng), "mutable": mutable}
        if kind == "frame":
            f = GENS["frame"].init(rng)
            f["mutable"] = mutable
            return f
        if kind == "eof":
            a = GENS["eof"].init(rng)
        elif kind == "finished":
            a = GENS["finished"].init(rng)
            a["none_responses"] = rng.random() < 0.2
        elif kind == "metadata":
            a = GENS["metadata"].init(rng)
        elif kind == "filedata":
            a = GENS["fd"].init(rng)
        elif kind == "nak":
            a = GENS["nak"].init(rng)
            if a["segs"] is None:
                a["segs"] = []
        else:
            a = c06.rand_conf(rng)
            a.update(progress=rng.randint(0, U32), resp=rng.randint(0, 1), acked=rng.choice([4, 5]),
                     cond=rng.choice(c06.COND_MEMBERS), tstatus=rng.randint(0, 3))
        a["mutable"] = mutable
        a.pop("kind", None)
        return a


PROP = C11()
