"""C19 — sequence counters count modulo 2^width, stay in range and survive restarts"""
import os
import random
import shutil
import tempfile
from pathlib import Path
from typing import Any, Dict, Iterator, List, Optional

from core import Case, Prop, SelfCheckFailure, InfraError, exc_category, DOCUMENTED
from core import tolerant_set as core_tolerant_set

import spacepackets.seqcount as seqmod
from spacepackets.seqcount import FileSeqCountProvider, SeqCountProvider
from spacepackets.ccsds.spacepacket import PacketSeqCtrl, SequenceFlags

WIDTHS = [1, 2, 3, 8, 14, 16]
FILE_NAME = "seqcnt.txt"


# --------------------------------------------------------------------------------------------
# implementation ops (public API only; every file lives in a fresh temporary directory)
# --------------------------------------------------------------------------------------------
def _acceptable(v: int):
    """a value handed out for a width <= 14 must be usable as a packet sequence count"""
    try:
        p = PacketSeqCtrl(SequenceFlags.UNSEGMENTED, v)
    except Exception as e:  # noqa
        raise SelfCheckFailure(f"value {v} returned by a provider is refused as packet sequence count: {type(e).__name__}")
    if int(p.seq_count) != v:
        raise SelfCheckFailure(f"PacketSeqCtrl stores {p.seq_count} for the provided count {v}")


class _Bystander:
    """a second provider alive in the same process (programs keep one per APID / per file): its own sequence is
    0, 1, 2, … modulo 2^width whatever the provider under observation does, and calling it does not disturb that one
    (whose values are compared with the model as before)"""

    def __init__(self, prov, width: int, what: str):
        self.prov, self.width, self.what, self.k = prov, width, what, 0

    def call(self):
        v = int(self.prov.get_and_increment())
        if v != self.k % (1 << self.width):
            raise SelfCheckFailure(f"{self.what} (width {self.width}) used next to the provider of this line returned {v} "
                                   f"on its call #{self.k + 1}, not {self.k % (1 << self.width)}")
        self.k += 1


# --------------------------------------------------------------------------------------------
# Histories in which the provider of the line is not new and not of one width: it is created, used (through every entry
# point: get_and_increment(), next(), __next__(), the file-backed one also current() / create_new(), the 14-bit PUS
# convenience class) and switched to other widths through the documented `max_bit_width` setter, possibly several times.
# The width is part of the MODEL's state (Model/SeqCount.lean: MemS / MemOp, WStep / wstep; Props/C19Switch.lean), so the
# whole history is sent to the Lean op and the complete output trace is compared:
#   seq_mem_run : "width": w0 (of the constructor), "ops": [["calls", n, via] | ["call"] | ["set_width", w] | ["set_count", c], ...],
#                 "n_calls": calls made after the history (all three entry points in turn), "rebase": [v, ...].
#                 Every value of every call is compared EXACTLY with the model's (which mirrors HEAD: count mod 2^width is
#                 handed out) - except where the statement leaves the value open: the FIRST call after a switch to a width
#                 the count did not fit, and after an assignment to `count` (a public attribute the statement does not speak
#                 about). There any value in [0, 2^width - 1] is right (reduction modulo 2^width, a reset to 0, ...); the model
#                 run is RE-BASED on the value the implementation returned there ("rebase", obtained by the generator from
#                 the implementation and refreshed by the implementation op if the line is run against another tree; an
#                 out-of-range value is not taken), and everything after it is compared exactly again. "free" (both sides)
#                 lists the calls that were open; it is empty for histories in which every switch fits (C19_mem_switch_open_closed:
#                 the comparison run is then the model). Range, packet-sequence-count acceptance and the successor relation
#                 are additionally checked on the real values alone (SelfCheckFailure with a readable message).
#   seq_file_run: "width": w0, "initial": content at the start | null, "steps": ["call" | "current" | "restart" | "delete" |
#                 "create" | ["set_width", w], ...], "cls": "pus" (first instance = PusFileSeqCountProvider). A restart is a new
#                 instance of the width in force; results and peeks are compared exactly at every step (a stored value that
#                 does not fit the width in force is refused with ValueError until create_new(), C19_file_switch_stuck).
#   seq_file_run with "hist": {..., "rewrite": true}: ANOTHER PROCESS replaced the file between the history and the line's steps
#                 (not an operation of the provider, so not in the model's alphabet): the history runs harness-side only and the
#                 line asks the model about a provider of the line's width on the rewritten content.
# --------------------------------------------------------------------------------------------
VIAS = ["get_and_increment", "next", "dunder"]


def _call(p, via: str, i: int = 0):
    """one call through the named entry point ('mixed': all three in turn)"""
    if via == "mixed":
        via = VIAS[i % 3]
    if via == "get_and_increment":
        return p.get_and_increment()
    if via == "next":
        return next(p)
    if via == "dunder":
        return p.__next__()
    raise InfraError(f"malformed line: entry point {via!r}")


def _switch(p, w: int):
    p.max_bit_width = w
    if int(p.max_bit_width) != w:
        raise SelfCheckFailure(f"max_bit_width reads {p.max_bit_width!r} after it was set to {w}")


def _check_run(vals: List[int], w: int, what: str, first: Optional[int] = None):
    """the statement for one stretch of calls at one width: range, packet sequence count, successor relation"""
    top = 1 << w
    for i, v in enumerate(vals):
        if isinstance(v, bool) or not isinstance(v, int) or not 0 <= v < top:
            raise SelfCheckFailure(f"{what}: call #{i + 1} returned {v!r}, outside [0, {top - 1}] (values so far {vals[:i + 1][:12]})")
        if i and v != (vals[i - 1] + 1) % top:
            raise SelfCheckFailure(f"{what}: call #{i + 1} returned {v} after {vals[i - 1]}; the previous value plus one modulo 2^{w} "
                                   f"is {(vals[i - 1] + 1) % top}")
    if first is not None and vals and vals[0] != first:
        raise SelfCheckFailure(f"{what}: the first call returned {vals[0]}, not {first}")
    if w <= 14:
        for v in (vals if len(vals) <= 600 else vals[:300] + vals[-300:]):
            _acceptable(v)


def _assign_count(p, x) -> bool:
    """`provider.count = x` where `count` is a public data attribute of the provider (a provider without it, or one whose
    setter refuses the value, is simply not driven this way)"""
    if x is None or not hasattr(p, "count") or callable(getattr(p, "count")):
        return False
    return core_tolerant_set(p, "count", x)


def _entries(a):
    """the line's history followed by its n_calls calls, as (kind, argument, entry point)"""
    out = []
    for e in list(a.get("ops") or []) + [["calls", a["n_calls"], "mixed"]]:
        if not isinstance(e, list) or not e:
            raise InfraError(f"malformed line: history entry {e!r}")
        if e[0] == "call":
            out.append(("calls", 1, e[1] if len(e) > 1 else "mixed"))
        elif e[0] == "calls":
            out.append(("calls", int(e[1]), e[2] if len(e) > 2 else "mixed"))
        elif e[0] in ("set_width", "set_count"):
            out.append((e[0], e[1], None))
        else:
            raise InfraError(f"malformed line: history entry {e!r}")
    return out


def _open_calls(w0: int, entries, vals: List[int]):
    """(calls whose value the statement leaves open, the implementation's values there) - the rule of the Lean comparison
    run `memRunOpen`, word for word: the count is the MODEL's (HEAD's arithmetic) everywhere, re-based on the implementation's
    value, if that is in range, at an open call"""
    count, w, is_open, k = 0, w0, False, 0
    free, rebase = [], []
    for kind, x, _via in entries:
        if kind == "set_width":
            w = x
            if not 0 <= count < (1 << w):
                is_open = True
        elif kind == "set_count":
            count, is_open = x, True
        else:
            top = 1 << w
            for _ in range(x):
                if k >= len(vals):
                    return free, rebase
                if is_open:
                    free.append(k)
                    rebase.append(vals[k])
                    if 0 <= vals[k] < top:
                        count = vals[k]
                    is_open = False
                count = (count % top + 1) % top
                k += 1
    return free, rebase


def _drive_mem(w0: int, entries, check: bool):
    """runs the history on a real SeqCountProvider; returns the values of all calls. With `check`, the statement is checked
    on the real values alone for every stretch of calls at one width (range, packet sequence count, successor relation)"""
    p = SeqCountProvider(w0)
    story = [f"SeqCountProvider({w0})"]
    vals: List[int] = []
    w, seg, fresh = w0, [], True

    def flush():
        nonlocal seg, fresh
        if check and seg:
            _check_run(seg, w, "; ".join(story), first=0 if fresh else None)
        if seg:
            fresh = False
        seg = []

    for kind, x, via in entries:
        if kind == "set_width":
            flush()
            _switch(p, x)
            w = x
            story.append(f"max_bit_width = {x}")
        elif kind == "set_count":
            flush()
            fresh = False
            # a provider without a public data attribute `count`, or one whose setter refuses the value, is not driven this
            # way; the model run treats the call after it as open in any case and is re-based on what the provider returns
            if _assign_count(p, x):
                story.append(f"count = {x}")
        else:
            got = [int(_call(p, via, i)) for i in range(x)]
            story.append(f"{x} calls")
            seg += got
            vals += got
    flush()
    return vals


def _mem_history(a):
    entries = _entries(a)
    vals = _drive_mem(a["width"], entries, True)
    free, rebase = _open_calls(a["width"], entries, vals)
    if list(a.get("rebase") or []) != rebase:
        # the line was derived from the output of another tree (replay, shrinking): the values the model run is re-based on are
        # this implementation's, by definition
        a["rebase"] = rebase
    return {"values": vals, "free": free}


def mem_rebase(w0: int, ops, n_after: int) -> List[int]:
    """generator side: the values the real provider returns at the open calls of the history (nothing if it cannot be driven
    that far - the evaluation of the line then reports what happened)"""
    a = {"width": w0, "ops": ops, "n_calls": n_after}
    try:
        entries = _entries(a)
        return _open_calls(w0, entries, _drive_mem(w0, entries, False))[1]
    except InfraError:
        raise
    except Exception:  # noqa
        return []


def op_seq_mem_run(a):
    w, n = a["width"], a["n_calls"]
    if a.get("ops") is not None:
        return _mem_history(a)
    wb = 3 if w != 3 else 2
    other = _Bystander(SeqCountProvider(wb), wb, "a second SeqCountProvider") if n % 2 else None
    p = SeqCountProvider(w)
    if other is None:
        other = _Bystander(SeqCountProvider(wb), wb, "a second SeqCountProvider")
    vals = []
    for i in range(n):
        if i < 12 or i == n // 2 or i >= n - 3:
            other.call()
        v = next(p) if i % 2 else p.get_and_increment()
        vals.append(int(v))
    if w <= 14:
        for v in (vals if n <= 600 else vals[:40] + vals[(1 << w) - 20:(1 << w) + 20] + vals[-40:]):
            _acceptable(v)
    return {"values": vals}


def _outcome(fn):
    """value, or the canonical category of a documented exception; anything else escapes"""
    try:
        return int(fn())
    except Exception as e:  # noqa
        cat = exc_category(e)
        if cat not in DOCUMENTED:
            raise
        return cat


def _peek(w: int, path: Path):
    """what a new provider instance on the same file would continue with"""
    if not path.exists():
        return "absent"
    return _outcome(lambda: FileSeqCountProvider(w, path).current())


def _raw(path: Path) -> Optional[str]:
    if not path.exists():
        return None
    return path.read_bytes().decode("latin-1")


class _Dir:
    def __enter__(self):
        self.d = tempfile.mkdtemp(prefix="c19-")
        return Path(self.d) / FILE_NAME

    def __exit__(self, *exc):
        shutil.rmtree(self.d, ignore_errors=True)
        return False


def _file_after_history(a, path: Path):
    """the live instance of a seq_file_run line with the key "hist": created and used with other widths, the file holding
    the line's `initial`, then switched to the line's width"""
    h, w = a["hist"], a["width"]
    if not h["phases"] or not isinstance(a["initial"], str):
        raise InfraError("malformed line: a history needs phases and the file content it ends with")
    if h["initial"] is not None:
        path.write_bytes(h["initial"].encode("ascii"))
    prov = None
    i = 0
    for wk, steps in h["phases"]:
        if prov is None:
            if h["cls"] == "pus":
                if wk != 14:
                    raise InfraError("malformed line: the PUS provider has 14 bits")
                prov = seqmod.PusFileSeqCountProvider(path)
            else:
                prov = FileSeqCountProvider(wk, path)
        else:
            _switch(prov, wk)
        for st in steps:
            i += 1
            if st == "call":
                _call(prov, "mixed", i)
            elif st == "current":
                prov.current()
            elif st == "create":
                prov.create_new()
            elif st == "restart":
                prov = FileSeqCountProvider(wk, path)
            else:
                raise InfraError(f"malformed line: history step {st!r}")
    w_last = h["phases"][-1][0]
    if h.get("rewrite"):
        path.write_bytes(a["initial"].encode("ascii"))
    else:
        want = a["initial"].strip()
        got = _peek(w_last, path)
        if not want.isdigit() or got != int(want):
            raise SelfCheckFailure(f"after the history {h['phases']} (file at the start: {h['initial']!r}) a new instance of width "
                                   f"{w_last} reads {got!r} from the file; counting from 0 modulo 2^width gives {want}")
    _switch(prov, w)
    return prov


def op_seq_file_run(a):
    w = a["width"]            # the width in force: changed by ["set_width", w] steps
    with _Dir() as path:
        if a.get("hist"):
            prov = _file_after_history(a, path)
        else:
            if a["initial"] is not None:
                path.write_bytes(a["initial"].encode("ascii"))
            if a.get("cls") == "pus":
                if w != 14:
                    raise InfraError("malformed line: the PUS provider has 14 bits")
                prov = seqmod.PusFileSeqCountProvider(path)
            else:
                prov = FileSeqCountProvider(w, path)
        wb = 2 if w != 2 else 3
        other = _Bystander(FileSeqCountProvider(wb, path.with_name("other-" + FILE_NAME)), wb, "a second FileSeqCountProvider on another file")
        results: List[Any] = []
        peeks: List[Any] = []
        files: List[Any] = []
        for i, st in enumerate(a["steps"]):
            if i < 6 or i == len(a["steps"]) - 1:
                other.call()
            if st == "call":
                r = _outcome(lambda: _call(prov, "mixed", i))
                if isinstance(r, int) and w <= 14:
                    _acceptable(r)
            elif st == "current":
                r = _outcome(prov.current)
            elif st == "restart":
                prov = FileSeqCountProvider(w, path)
                r = None
            elif st == "delete":
                if path.exists():
                    os.remove(path)
                r = None
            elif st == "create":
                prov.create_new()
                r = None
            elif isinstance(st, list) and len(st) == 2 and st[0] == "set_width":
                _switch(prov, st[1])
                w = st[1]
                r = None
            else:
                raise InfraError(f"malformed line: step {st!r}")
            results.append(r)
            peeks.append(_peek(w, path))
            files.append(_raw(path))
        return {"results": results, "peeks": peeks, "files": files}


def op_seq_file_once(a):
    w = a["width"]
    with _Dir() as path:
        if a["initial"] is None:
            prov = FileSeqCountProvider(w, path)
            os.remove(path)
        else:
            path.write_bytes(a["initial"].encode("ascii"))
            prov = FileSeqCountProvider(w, path)
        if a["method"] == "call":
            v = prov.get_and_increment()
        else:
            v = prov.current()
        return {"value": int(v), "next": _peek(w, path)}


OPS = {"seq_mem_run": op_seq_mem_run, "seq_file_run": op_seq_file_run, "seq_file_once": op_seq_file_once}

# only what the property names is compared for whole histories: the value / error class of every
# call and what a new instance would read after every step. The raw file content ('files') is
# reported by both sides for the evidence but not compared (a provider that truncated the file
# would be just as correct).
RUN_KEYS = ["results", "peeks"]


# --------------------------------------------------------------------------------------------
# content pools
# --------------------------------------------------------------------------------------------
def valid_pool(w: int) -> List[str]:
    """contents the statement counts as a valid stored count for width w (ASCII)"""
    mx = (1 << w) - 1
    out = [f"{mx}\n", f"{mx}", f"{mx - 1}\n", "0\n", "1\n", "1", f"{mx}\r\n", f"{mx}\rjunk", f"0\n{mx}99\n",
           f"1\n{'9' * 12}\n", "1 ", "1 \t\x0b\x0c\x1c\x1d\x1e\x1f\n-5", "001\n", "0" * 100 + "1\nabc", "1\n\n\n",
           f"00{mx}  \r\n\x00\x7f", "0\n383\n", "1\x0b", f"{mx}\x1f\rq"]
    return out


def invalid_pool(w: int) -> List[str]:
    """contents that must be refused with ValueError for width w"""
    top = 1 << w
    return ["", "\n", "\r", "\r\n", "-1", "-0", " 7", " 1", "1e3", "+1", "1 0", "\r1", "\n1", "\r\n1", "\x1c1", "1\x0c0",
            "1\x0b0", "1\x00", "\x001", "0x1", "abc", "1.0", "1_0", "--", "\t", "   \n", " \n1\n", f"{top}", f"{top}\n",
            f"{top + 1}\n", f"{top * 10}\n", "16384" if w <= 14 else "65536", "9" * 30, "1" + "0" * 40 + "\n",
            f"{top}\n0\n", "1,0", "1\x7f", "\x7f", "1a\n", "a1\n", "1-\n", "0b1", "1\x1b"]


ALPHABET = "0123456789" * 3 + " \t\n\r\x0b\x0c\x1c\x1f" * 2 + "-+e.x_a\x00\x7f,"


def rand_content(rng: random.Random) -> str:
    n = rng.choice([0, 1, 1, 2, 2, 3, 3, 4, 5, 6, 8, 12])
    return "".join(rng.choice(ALPHABET) for _ in range(n))


def calls(n: int, renew: bool) -> List[str]:
    return (["restart", "call"] * n) if renew else (["call"] * n)


def mixed_steps(rng: random.Random, n: int, p_delete: float = 0.0) -> List[str]:
    out = []
    for _ in range(n):
        x = rng.random()
        if x < p_delete:
            out.append("delete")
        elif x < 0.55:
            out.append("call")
        elif x < 0.8:
            out.append("restart")
        else:
            out.append("current")
    return out


class C19(Prop):
    id = "C19"
    title = "Sequence counters count modulo 2^width, stay in range and survive restarts"
    lean_modules = ["SpVerif.Props.C19", "SpVerif.Props.C19Switch"]
    exhaustive_note = ("every ASCII character (0..127) alone, after, before and between digits as file content for two widths; "
                       "complete cycles (2*2^w+3 calls, beyond two wrap-arounds) of both providers for widths 1,2,3,8 "
                       "(in-memory provider also 14 and 16) on every run; thorough tier: complete cycles of the "
                       "file-backed provider for every width 1..14 and 16")
    trusted_base = [
        "text-mode file I/O of CPython on a POSIX file system (open 'r+'/'w', readline with universal newlines, seek(0), "
        "write without truncation), str.rstrip/isdigit/int and f-string rendering: modelled operation by operation, "
        "tied by the correspondence runs on real files, not verified",
        "the file system and the operating system (one file in a fresh temporary directory per run, no concurrent access)",
    ]
    assumptions = [
        "file content is ASCII (str.isdigit accepts other Unicode digits; undecodable octets raise UnicodeDecodeError): outside the model; the theorems carry it as the explicit hypothesis Ascii / AsciiFile, preserved by every step (C19_ascii_step)",
        "POSIX text mode: os.linesep is '\\n' and the default encoding maps ASCII octets to the same characters",
        "the first line is shorter than CPython's integer string conversion limit (4300 digits) and width < 14000",
        "the file is not touched by anyone else between two operations; crash points inside a call are outside the statement",
        "the width is a non-negative integer. A width changed through the documented max_bit_width setter in the middle of a "
        "history is part of the model (MemOp.setWidth / WStep.setWidth) and the whole output trace is compared exactly. Where the "
        "statement leaves a value open - the FIRST call of the in-memory provider after a switch to a width its count did not fit, "
        "or after an integer was assigned to the public `count` attribute (about which the statement says nothing; negative "
        "integers included) - any value in [0, 2^width - 1] is accepted (HEAD: count mod 2^width; a reset to 0 would be as right) and "
        "the model run continues from the value the implementation returned (memRunOpen, key 'rebase'); every later value is exact "
        "again. The file-backed provider refuses a stored value that does not fit the width in force with ValueError on every call "
        "until create_new(), exactly like the model (C19_file_switch_stuck)",
        "a file rewritten by another process between two operations (case key 'hist' with 'rewrite') is not an operation of the "
        "model: the line then asks the model about a provider of the line's width on the rewritten content only",
    ]

    def impl_ops(self):
        return OPS

    def table_sync(self):
        d = []
        ws = [c for c in range(128) if chr(c).isspace()]
        if ws != [9, 10, 11, 12, 13, 28, 29, 30, 31, 32]:
            d.append(f"ASCII white space of str.rstrip: {ws} model=[9..13,28..31,32]")
        dg = [c for c in range(128) if chr(c).isdigit()]
        if dg != list(range(48, 58)):
            d.append(f"ASCII digits of str.isdigit: {dg} model=48..57")
        if os.linesep != "\n":
            d.append(f"os.linesep={os.linesep!r} model='\\n'")
        return d

    def nontrivial(self, c: Case) -> bool:
        o = c.op
        if o["op"] == "seq_mem_run":
            return o["n_calls"] > 0 or any(e[0] in ("call", "calls") for e in (o.get("ops") or []))
        if o["op"] == "seq_file_run":
            return len(o["steps"]) > 0
        return True

    def neighbours(self, c: Case, rng: random.Random) -> Iterator[Case]:
        o = c.op
        if o["op"] == "seq_file_once" and isinstance(o.get("initial"), str):
            s = o["initial"]
            for w in WIDTHS:
                for m in ("call", "current"):
                    for t in {s, s[:-1], s[1:], s + "\n", s.strip()}:
                        yield Case({"op": "seq_file_once", "width": w, "initial": t, "method": m}, "any", errclass=True, tag="neighbour")

    def cases(self, rng: random.Random, tier: str) -> Iterator[Case]:
        thorough = tier == "thorough"

        def run(w, initial, steps, tag):
            return Case({"op": "seq_file_run", "width": w, "initial": initial, "steps": steps}, "valid", tag=tag, keys=RUN_KEYS)

        def once(w, initial, method, expect, tag):
            return Case({"op": "seq_file_once", "width": w, "initial": initial, "method": method}, expect, errclass=True, tag=tag)

        # --- in-memory provider: complete cycles and more, every width -------------------------
        for w in (WIDTHS if not thorough else sorted(set(WIDTHS) | set(range(1, 17)))):
            top = 1 << w
            for n in sorted({0, 1, 2, top - 1, top, top + 1, 2 * top + 3, rng.randint(0, 2 * top + 3)}):
                yield Case({"op": "seq_mem_run", "width": w, "n_calls": n}, "valid", tag=f"mem-w{w}")
        # --- file-backed provider from creation: 2*2^w+3 calls, with and without a new instance before every call
        small = [1, 2, 3, 8] if not thorough else list(range(1, 15)) + [16]
        for w in small:
            n = 2 * (1 << w) + 3
            for renew in (False, True):
                yield run(w, None, calls(n, renew), f"file-cycle-w{w}-{'renew' if renew else 'same-instance'}")
            if w <= 8:
                yield run(w, None, mixed_steps(rng, 3 * n), f"file-cycle-w{w}-mixed")
        # --- widths 14 / 16 (and all others): start from a hand-written file near the maximum -----
        for w in WIDTHS + [54, 64]:       # (54, 64: beyond the precision of a double - a bound computed in floating point is off by one there)
            mx = (1 << w) - 1
            for k in (0, 1, 2, 5):
                start = max(mx - k, 0)
                for text in (f"{start}\n", f"{start}", f"{start}\n99999\n", f"000{start} \r\n"):
                    for renew in (False, True):
                        yield run(w, text, calls(k + 6, renew), f"file-near-max-w{w}")
                    yield run(w, text, mixed_steps(rng, 24), f"file-near-max-w{w}-mixed")
        # --- histories in which the file is removed under a live instance -------------------------
        for w in WIDTHS:
            yield run(w, None, ["call", "delete", "call", "current", "restart", "current", "call", "call"], "file-delete")
            for _ in range(40 if thorough else 8):
                yield run(w, rng.choice([None, "1\n", f"{(1 << w) - 1}\n"]), mixed_steps(rng, rng.randint(1, 30), 0.12), "file-delete-mixed")
        # --- valid hand-written contents (stale tails, blanks after the number, CR/LF, leading zeros)
        for w in WIDTHS:
            for text in valid_pool(w):
                for m in ("call", "current"):
                    yield once(w, text, m, "valid", "content-valid")
                yield run(w, text, ["current", "call", "restart", "call", "current", "call"], "content-valid-run")
        # --- contents that must be refused with ValueError; missing file -> FileNotFoundError -----
        for w in WIDTHS:
            for text in invalid_pool(w):
                for m in ("call", "current"):
                    yield once(w, text, m, "invalid", "content-invalid")
                yield run(w, text, ["call", "current", "restart", "call", "delete", "restart", "call"], "content-invalid-run")
            for m in ("call", "current"):
                yield once(w, None, m, "invalid", "file-missing")
        # --- every ASCII character in every position relative to digits ---------------------------
        for w in (3, 14):
            for c in range(128):
                ch = chr(c)
                for text in (ch, "5" + ch, ch + "5", "5" + ch + "6", "5" + ch + "\n", ch + "\n5"):
                    yield once(w, text, "call", "any", "ascii-sweep")
        # --- the width is changed through the setter AFTER the provider has been used (key "hist") -------
        yield from (c for c in self.gen_width_switch(rng, thorough) if c is not None)
        # --- random ASCII contents -------------------------------------------------------------
        for _ in range(30000 if thorough else 2500):
            w = rng.choice(WIDTHS)
            text = rand_content(rng)
            yield once(w, text, rng.choice(["call", "current"]), "any", "content-random")
            if rng.random() < 0.2:
                yield Case({"op": "seq_file_run", "width": w, "initial": text, "steps": mixed_steps(rng, 6, 0.05)}, "valid",
                           tag="content-random-run", keys=RUN_KEYS)

    # ------------------------------------------------------------------------------------------
    def gen_width_switch(self, rng: random.Random, thorough: bool) -> Iterator[Case]:
        def history(phases, w_new, count=None):
            """[[width, calls, via(, count)], ...] then a switch to w_new (then `count` assigned) as the line's width and ops"""
            ops = []
            for k, ph in enumerate(phases):
                if k:
                    ops.append(["set_width", ph[0]])
                if len(ph) > 3 and ph[3] is not None:
                    ops.append(["set_count", ph[3]])
                ops.append(["calls", ph[1], ph[2]])
            ops.append(["set_width", w_new])
            if count is not None:
                ops.append(["set_count", count])
            return phases[0][0], ops

        def mem(phases, w_new, n_after, tag):
            """in-memory provider: phases = [[width, calls, via], ...]; None if a switch would leave the value out of range
            (those histories are generated by free() below). No call is open: the whole trace is compared exactly."""
            v = 0
            for wk, k, _via in phases:
                if v >= (1 << wk):
                    return None
                v = (v + k) % (1 << wk)
            if v >= (1 << w_new):
                return None
            w0, ops = history(phases, w_new)
            return Case({"op": "seq_mem_run", "width": w0, "n_calls": n_after, "ops": ops, "rebase": []}, "valid", tag=tag)

        def span(w_old, w_new):
            """calls after the switch that cross the old and the new boundary at least once, whatever the start"""
            return 2 * max(1 << w_old, 1 << w_new) + 3

        small = [1, 2, 3, 4, 5, 8]
        for w_old in small:
            for w_new in small:
                if w_new == w_old:
                    continue
                top = 1 << w_old
                ks = {0, 1, 2, top - 1, top, top + 1, rng.randint(1, 2 * top + 3)}
                if w_new < w_old:
                    ks |= {(1 << w_new) - 1, top + (1 << w_new) - 1}
                for i, k in enumerate(sorted(ks)):
                    c = mem([[w_old, k, (VIAS + ["mixed"])[(i + w_old + w_new) % 4]]], w_new, span(w_old, w_new),
                            f"switch-mem-{'wider' if w_new > w_old else 'narrower'}")
                    if c is not None:
                        yield c
        # the 14-bit packet sequence count widened to 16 bits and back, across both boundaries
        for k in (1, 16383, 16384 + 5):
            yield mem([[14, k, "mixed"]], 16, 10 if k != 16384 + 5 else (1 << 16) + 6, "switch-mem-14-16")
        yield mem([[16, 3, "next"]], 14, (1 << 14) + 6, "switch-mem-16-14")
        yield mem([[16, (1 << 16) + 16380, "get_and_increment"]], 14, 10, "switch-mem-16-14")
        # several switches in a row
        made = 0
        while made < (200 if thorough else 30):
            phases = [[rng.choice(small), rng.randint(0, 40), rng.choice(VIAS + ["mixed"])] for _ in range(rng.randint(2, 4))]
            w_new = rng.choice(small)
            c = mem(phases, w_new, span(max(p[0] for p in phases), w_new), "switch-mem-chain")
            if c is not None and w_new != phases[-1][0]:
                made += 1
                yield c

        # ---- in-memory provider, switches the current value does NOT fit (and `count` assigned out of range) ----
        def free(phases, w_new, n_after, tag, count=None):
            """any history: the calls the statement leaves open are re-based on what the provider returns there"""
            w0, ops = history(phases, w_new, count)
            return Case({"op": "seq_mem_run", "width": w0, "n_calls": n_after, "ops": ops,
                         "rebase": mem_rebase(w0, ops, n_after)}, "valid", tag=tag)

        vias = VIAS + ["mixed"]
        for w_old in small:
            for w_new in small:
                if w_new >= w_old:
                    continue
                top, low = 1 << w_old, 1 << w_new
                ks = {low, low + 1, top - 1, top + low, rng.randrange(low, top)}
                for i, k in enumerate(sorted(k for k in ks if k % top >= low)):
                    yield free([[w_old, k, vias[(i + w_old) % 4]]], w_new, 2 * low + 3, "switch-mem-narrower-nonfitting")
        yield free([[16, 20000, "get_and_increment"]], 14, 10, "switch-mem-16-14-nonfitting")
        yield free([[16, 65535, "mixed"]], 14, (1 << 14) + 6, "switch-mem-16-14-nonfitting")
        yield free([[16, 16384, "next"]], 14, 3, "switch-mem-16-14-nonfitting")
        yield free([[8, 200, "dunder"]], 0, 4, "switch-mem-narrower-nonfitting")
        for _ in range(300 if thorough else 40):      # several switches in a row, fitting or not
            phases = [[rng.choice(small + [14, 16]), rng.randint(0, 300), rng.choice(vias)] for _ in range(rng.randint(2, 4))]
            w_new = rng.choice(small + [14])
            yield free(phases, w_new, 2 * min(1 << w_new, 64) + 3, "switch-mem-chain-any")
        # `count` (a public attribute) set to an integer outside the width, with and without a switch
        for w in small + [14, 16, 54, 64]:
            top = 1 << w
            for x in (top, top + 5, 3 * top + 1, -1, -top - 3, (1 << 64) + 3, 10 ** 30, top - 1, top - 2, 0):
                k = rng.randint(0, 2 * min(top, 40))
                yield free([[w, k, rng.choice(vias)]], w, min(top, 40) + 3, "count-assigned", count=x)
                w2 = rng.choice(small)
                yield free([[w2, k, rng.choice(vias), rng.choice([None, x])]], w, min(top, 40) + 3, "count-assigned-and-switch", count=x)

        # ---- file-backed provider ---------------------------------------------------------------
        def advance(v, wk, steps):
            for st in steps:
                if st == "call":
                    v = 0 if v >= (1 << wk) - 1 else v + 1
                elif st == "create":
                    v = 0
            return v

        def file(phases, w_new, steps, tag, cls="file", initial0=None, rewrite=None):
            """phases = [[width, [steps]], ...], then the switch to w_new and the steps. The whole history is one line for
            the model (a stored value that does not fit a width is refused there like in the code); only when ANOTHER PROCESS
            rewrites the file in between (`rewrite`) the history stays harness-side (key "hist") and must then be one the
            stored value fits at every switch."""
            if rewrite is None:
                line = []
                for k, (wk, sts) in enumerate(phases):
                    if k:
                        line.append(["set_width", wk])
                    line += list(sts)
                line.append(["set_width", w_new])
                op = {"op": "seq_file_run", "width": phases[0][0], "initial": None if initial0 is None else f"{initial0}\n",
                      "steps": line + list(steps)}
                if cls != "file":
                    op["cls"] = cls
                return Case(op, "valid", tag=tag, keys=RUN_KEYS)
            v = 0 if initial0 is None else int(initial0)
            for wk, sts in phases:
                if v >= (1 << wk):
                    return None
                v = advance(v, wk, sts)
            hist = {"cls": cls, "initial": None if initial0 is None else f"{initial0}\n", "phases": [[wk, list(sts)] for wk, sts in phases],
                    "rewrite": True}
            return Case({"op": "seq_file_run", "width": w_new, "initial": rewrite, "steps": steps, "hist": hist}, "valid", tag=tag,
                        keys=RUN_KEYS)

        def used(rng, k):
            """k uses of the live instance through every entry point (calls and current()), ending with a use"""
            if k == 0:
                return []
            sts = [rng.choice(["call", "call", "call", "current"]) for _ in range(k - 1)]
            return sts + [rng.choice(["call", "current"])]

        fsmall = [1, 2, 3, 4] if not thorough else [1, 2, 3, 4, 5, 6]
        for w_old in fsmall:
            for w_new in fsmall + [fsmall[-1] + 1]:
                if w_new == w_old:
                    continue
                top = 1 << w_old
                n = (1 << w_new) + top + 3 if w_new > w_old else 2 * (1 << w_new) + 3      # (across the old and the new boundary)
                tag = f"switch-file-{'wider' if w_new > w_old else 'narrower'}"
                for k in sorted({1, top - 1, rng.randint(1, 2 * top)} | ({top + 1} if thorough else set())):
                    pre = ["call"] * k if k != top - 1 else used(rng, k)
                    c = file([[w_old, pre]], w_new, calls(n, False) if k % 2 else mixed_steps(rng, n), tag)
                    if c is not None:
                        yield c
                # used through current() only; width set before the first use; create_new() in between; a new instance
                entries = (["current"], [], ["call", "call", "create", "call"], ["call", "restart", "current"])
                for pre in (entries if thorough else (entries[0], entries[1 + (w_old + w_new) % 3])):
                    c = file([[w_old, pre]], w_new, calls(min(n, 2 * top + 4 if w_new > w_old else (2 << w_new) + 4), False), tag + "-entry")
                    if c is not None:
                        yield c
                # the current value does not fit the narrower width: refused with ValueError from then on, like the model
                if w_new < w_old:
                    yield file([[w_old, ["call"] * (1 << w_new)]], w_new, ["call", "current", "call", "restart", "call"], "switch-file-narrower-stuck")
                # another process continued the file in the meantime: any count that is valid for the new width
                texts = (f"{top}\n", f"{(1 << w_new) - 2}\n", f"{(1 << w_new) - 1}", f"{min(top, (1 << w_new) - 1)} \r\n9\n")
                for text in (texts if thorough else (texts[0], texts[1 + (w_old + w_new) % 3])):
                    yield file([[w_old, used(rng, rng.randint(1, 3))]], w_new, calls(6, False) + ["current"], tag + "-rewritten", rewrite=text)
        # the PUS convenience class (14 bits) widened to 16 bits / narrowed, near the boundaries
        pus = "pus"
        yield file([[14, ["call", "call", "current"]]], 16, calls(8, False), "switch-file-pus", cls=pus, initial0=16380)
        yield file([[14, ["call"]]], 16, ["call", "current", "call", "restart", "call"], "switch-file-pus", cls=pus, rewrite="20000\n")
        yield file([[14, ["current"]]], 16, calls(6, False), "switch-file-pus", cls=pus, rewrite="65533\n")
        yield file([[14, ["call", "call"]]], 3, calls(20, False), "switch-file-pus", cls=pus)
        yield file([[14, ["call"] * 3]], 3, calls(12, False), "switch-file-pus", cls=pus, initial0=16382)
        yield file([[14, ["call"] * 9]], 3, calls(4, False) + ["current"], "switch-file-pus", cls=pus)
        for w_old, start in ((14, 16381), (16, 65533), (8, 254)):
            for w_new in (8, 14, 16):
                if w_new != w_old:
                    c = file([[w_old, used(rng, 4)]], w_new, calls(8, False), "switch-file-near-max", initial0=start)
                    if c is not None:
                        yield c
        # several switches in a row
        made = 0
        while made < (150 if thorough else 15):
            phases = [[rng.choice(fsmall), used(rng, rng.randint(0, 12))] for _ in range(rng.randint(2, 3))]
            w_new = rng.choice(fsmall + [fsmall[-1] + 1])
            c = file(phases, w_new, mixed_steps(rng, 30), "switch-file-chain")
            if c is not None and w_new != phases[-1][0]:
                made += 1
                yield c


PROP = C19()
