"""C18 — reserved CFDP messages (proxy, directory, originating ID) round-trip via message-to-user TLVs
(CCSDS 727.0-B-5 §6.1-6.3)"""
import random
import zlib
from typing import Any, Dict, Iterator, List, Optional

import core
from core import Case, Prop, SelfCheckFailure, InfraError
from gen import hx, unhx, rbytes, pool

from spacepackets.cfdp.defs import (
    ConditionCode, DeliveryCode, FileStatus, TransmissionMode, TransactionId,
)
from spacepackets.cfdp.lv import CfdpLv
from spacepackets.cfdp.pdu.finished import FinishedParams
import spacepackets.cfdp.tlv as tlvmod
from spacepackets.cfdp.tlv import (
    CfdpTlv, MessageToUserTlv, TlvHolder, TlvType, ReservedCfdpMessage, ProxyPutRequestParams, ProxyPutRequest,
    ProxyCancelRequest, ProxyClosureRequest, ProxyTransmissionMode, ProxyPutResponse, ProxyPutResponseParams,
    DirectoryParams, DirListingOptions, DirectoryListingRequest, DirectoryListingResponse,
    DirectoryListingParameters, OriginatingTransactionId, ProxyMessageType, DirectoryOperationMessageType,
    ORIGINATING_TRANSACTION_ID_MSG_TYPE_ID,
)
from spacepackets.util import (
    UnsignedByteField, ByteFieldU8, ByteFieldU16, ByteFieldU32, ByteFieldU64, ByteFieldEmpty,
)

# constants the Lean model hard-codes (checked against the live module by table_sync)
PROXY_TYPES = [0, 1, 2, 3, 4, 5, 6, 7, 8, 9, 11]
DIR_TYPES = [16, 17, 21]
ORIG_TYPE = 10
CC_MEMBERS = [0, 1, 2, 3, 4, 5, 6, 7, 8, 10, 11, 14, 15]
W = [1, 2, 4, 8]
MARKER = b"cfdp"
SUFFIXES = ["", "a55a00ff06", "0205636664700b01", "02", "0600"]
GETTERS = ["orig_id", "put_req", "put_resp", "closure", "tx_mode", "dir_req", "dir_resp", "dir_opts"]
# the getter that belongs to a message type
OWN = {0: "put_req", 7: "put_resp", 11: "closure", 4: "tx_mode", 10: "orig_id", 16: "dir_req", 17: "dir_resp",
       21: "dir_opts"}
U_CLASSES = {1: ByteFieldU8, 2: ByteFieldU16, 4: ByteFieldU32, 8: ByteFieldU64}


def _need(cond, msg):
    if not cond:
        raise SelfCheckFailure(msg)


def _enum(E, v):
    """the member an application writes for the code `v`: the member of E with the STANDARD NAME of the code
    (core.std_member); the IntEnum member of that value / the plain int for codes without a standard name, as before"""
    return core.std_member(E, v)


_code = core.std_code    # int(code read back), after `code == E.NAME  <=>  it is the standard's code for NAME`


def _msg_type(code, form=None):
    """the message type an application passes to ReservedCfdpMessage for the code `code` of table 6-1: the member of
    ProxyMessageType / DirectoryOperationMessageType with the standard name of the code, the module constant
    ORIGINATING_TRANSACTION_ID_MSG_TYPE_ID for 0x0A (fetched by name), the plain int for every other code.
    form (case key "forms"): 'int' - the plain int of the same value; 'other' - a member of a foreign IntEnum class of that
    value (any octet, and -1)"""
    if isinstance(code, int) and not isinstance(code, bool):
        for E in (ProxyMessageType, DirectoryOperationMessageType):
            if code in core.std_table(E).values():
                return core.plain_code_form(core.std_member(E, code), code, form)
        if code == ORIG_TYPE:
            return core.plain_code_form(core.std_constant(tlvmod, "ORIGINATING_TRANSACTION_ID_MSG_TYPE_ID", code), code, form)
        return core.plain_code_form(code, code, form)
    return code


# ---------------------------------------------------------------- the form of each argument (case key "forms", core.code_form)
# `a["forms"]` names, per argument of the op line, the Python form in which it is handed to the library: codes as 'member'
# (default) / 'int' / 'other' (member of a foreign IntEnum), flags as 'bool' (default) / 'int', octets as 'bytes' (default) /
# 'bytearray'; "tlv_type" (+ "type_via": 'setter'): the message is ALSO taken over from a generic CfdpTlv whose type is the
# message-to-user code in that form (constructor argument, or assigned through the `tlv_type` setter), and everything the op
# reads is read from THAT message. The Lean ops do not read the key: the values are the same, so are the answers.
def _f(a, key):
    f = a.get("forms")
    return f.get(key) if f else None


def _arg(E, a, key):
    f = a.get("forms")
    return core.code_form(E, a[key], f.get(key)) if f else core.std_member(E, a[key])


def _oct(a, key):
    f = a.get("forms")
    return core.octets_form(unhx(a[key]), f.get(key)) if f else unhx(a[key])


def _field(a, pfx) -> UnsignedByteField:
    """the byte field described by <pfx>_w / <pfx>_v; concrete subclasses and the base class alternate"""
    w, v = a[pfx + "_w"], a[pfx + "_v"]
    if w in U_CLASSES and (v + w) % 2 == 0:
        return U_CLASSES[w](v)
    if w == 0 and v == 0:
        return ByteFieldEmpty()
    return UnsignedByteField(v, w)


def _fld(pfx, f) -> Dict[str, Any]:
    _need(len(f) == f.byte_len and int(f) == f.value, "byte field views disagree")
    return {pfx + "_w": int(f.byte_len), pfx + "_v": int(f.value), pfx + "_b": hx(f.as_bytes)}


# ---------------------------------------------------------------- views of a reserved message
def _g_orig_id(r):
    t = r.get_originating_transaction_id()
    return None if t is None else {**_fld("src", t.source_id), **_fld("seq", t.seq_num)}


def _g_put_req(r):
    p = r.get_proxy_put_request_params()
    if p is None:
        return None
    return {**_fld("dest", p.dest_entity_id), "src": hx(p.source_file_name.value), "dst": hx(p.dest_file_name.value)}


def _g_put_resp(r):
    p = r.get_proxy_put_response_params()
    if p is None:
        return None
    return {"cc": _code(ConditionCode, p.condition_code), "dc": _code(DeliveryCode, p.delivery_code),
            "fs": _code(FileStatus, p.file_status)}


def _g_closure(r):
    x = r.get_proxy_closure_requested()
    return None if x is None else int(x)


def _g_tx_mode(r):
    x = r.get_proxy_transmission_mode()
    return None if x is None else _code(TransmissionMode, x)


def _dirp(p):
    return {"path": hx(p.dir_path.value), "name": hx(p.dir_file_name.value)}


def _g_dir_req(r):
    p = r.get_dir_listing_request_params()
    return None if p is None else _dirp(p)


def _g_dir_resp(r):
    x = r.get_dir_listing_response_params()
    if x is None:
        return None
    ok, p = x
    return {"success": bool(ok), **_dirp(p)}


def _g_dir_opts(r):
    o = r.get_dir_listing_options()
    return None if o is None else {"recursive": int(o.recursive), "all": int(o.all)}


GET = {"orig_id": _g_orig_id, "put_req": _g_put_req, "put_resp": _g_put_resp, "closure": _g_closure,
       "tx_mode": _g_tx_mode, "dir_req": _g_dir_req, "dir_resp": _g_dir_resp, "dir_opts": _g_dir_opts}


def _opt_int(x):
    return None if x is None else int(x)


def _opt_code(E, x):
    return None if x is None else _code(E, x)


def _classify(r) -> Dict[str, Any]:
    _need(isinstance(r, ReservedCfdpMessage), "not a ReservedCfdpMessage")
    return {
        "msg_type": int(r.get_reserved_cfdp_message_type()),
        "is_proxy": bool(r.is_cfdp_proxy_operation()),
        "is_dir": bool(r.is_directory_operation()),
        "is_orig": bool(r.is_originating_transaction_id()),
        "proxy_type": _opt_code(ProxyMessageType, r.get_cfdp_proxy_message_type()),
        "dir_type": _opt_code(DirectoryOperationMessageType, r.get_directory_operation_type()),
        "value": hx(r.value),
        "packet_len": int(r.packet_len),
        "tlv_type": _code(TlvType, r.tlv_type),
    }


def _view(r) -> Dict[str, Any]:
    out = _classify(r)
    for g in GETTERS:
        out[g] = GET[g](r)
    return out


def _tlv_view(t) -> Dict[str, Any]:
    """type, value and length of a TLV object (all its state) for the isolation probe"""
    return {"type": _code(TlvType, t.tlv_type), "value": hx(t.value), "packet_len": int(t.packet_len)}


_NO_FORMS: Dict[str, Any] = {}


def _msg_to_user(raw: bytes, forms: Optional[Dict[str, Any]] = None) -> MessageToUserTlv:
    """decode a packed TLV as message to user — directly and through the generic TLV + holder"""
    forms = forms or _NO_FORMS
    buf = core.octets_form(raw, forms["raw"]) if "raw" in forms else raw
    mu = MessageToUserTlv.unpack(buf)
    mu2 = TlvHolder(CfdpTlv.unpack(buf)).to_msg_to_user()
    _need(isinstance(mu, MessageToUserTlv) and isinstance(mu2, MessageToUserTlv), "not a MessageToUserTlv")
    # messages decoded by earlier calls must still show what they showed then
    core.ISOLATION.check("MessageToUserTlv", mu, _tlv_view)
    _need(bytes(mu.value) == bytes(mu2.value) and mu == mu2, "unpack and TlvHolder.to_msg_to_user disagree")
    a, b = mu.is_reserved_cfdp_message(), mu2.is_reserved_cfdp_message()
    _need(bool(a) == bool(b), "is_reserved_cfdp_message differs between the two decoding routes")
    if forms.get("tlv_type") is not None:
        # the same message taken over from a generic TLV whose type is the message-to-user CODE in the given form; the
        # exceptions of the conversion propagate (the octets were accepted as a message to user above)
        def generic():
            ty, val = core.code_form(TlvType, 2, forms["tlv_type"]), bytes(mu.value)
            if forms.get("type_via") == "setter":
                g = CfdpTlv(core.std_member(TlvType, 5), val)
                g.tlv_type = ty
                return g
            return CfdpTlv(ty, val)
        mu3, mu4 = MessageToUserTlv.from_tlv(generic()), TlvHolder(generic()).to_msg_to_user()
        for m in (mu3, mu4):
            _need(isinstance(m, MessageToUserTlv) and _tlv_view(m) == _tlv_view(mu) and m == mu and mu == m
                  and bytes(m.pack()) == bytes(mu.pack()) and bool(m.is_reserved_cfdp_message()) == bool(a),
                  "the message taken over from a generic TLV of the message-to-user type differs from the decoded one")
        return mu3
    return mu


def _reserved_of(raw: bytes, forms: Optional[Dict[str, Any]] = None) -> Optional[ReservedCfdpMessage]:
    mu = _msg_to_user(raw, forms)
    flag = bool(mu.is_reserved_cfdp_message())
    r = mu.to_reserved_msg_tlv()
    _need((r is not None) == flag, "to_reserved_msg_tlv() is None exactly when the message is not reserved: violated")
    if r is not None:
        core.ISOLATION.check("ReservedCfdpMessage", r, _tlv_view)
        _need(bytes(r.value) == bytes(mu.value) and core.pack_stable(r, "ReservedCfdpMessage.pack() of a converted message") == bytes(mu.pack()),
              "reserved message differs from the message-to-user TLV it was converted from")
    # the message was decoded out of a receive buffer (a bytearray) that the receiver reuses afterwards: the TLV, the
    # reserved message made from it and every parameter its getters return are still the ones that were on the wire
    # (one message in four, chosen by the octets themselves: run time)
    if zlib.crc32(raw) & 3 == 0:
        core.check_detached(_decode_both, raw, _detached_view, "MessageToUserTlv.unpack / to_reserved_msg_tlv",
                            expect=_detached_view((mu, r)), memview=core.accepts_memoryview(MessageToUserTlv.unpack))
    return r


def _decode_both(buf):
    mu = MessageToUserTlv.unpack(buf)
    return mu, mu.to_reserved_msg_tlv()


def _detached_view(pair) -> Dict[str, Any]:
    mu, r = pair
    out = {"mu": _tlv_view(mu), "mu_raw": hx(mu.pack()), "reserved": r is not None}
    if r is not None:
        out["r"], out["r_raw"] = _tlv_view(r), hx(r.pack())
        for g in GETTERS:
            try:
                out[g] = GET[g](r)
            except ValueError:
                out[g] = "!value"       # (a truncated message: the getter refuses, before and after)
    return out


# ---------------------------------------------------------------- parameter objects the application edits in place
# Case key "prior" (not read by the model ops): TLVs (hex) the same process has decoded EARLIER, whose parameter objects -
# everything the get_* methods of the reserved message handed out - the application then edited in place through their
# public attributes (dataclass fields, the values of the nested LV / byte-field objects), e.g. to turn received
# parameters into its own report. What the line itself decodes, and what is decoded again from the earlier octets and from
# an equal, freshly packed message, still shows the parameters that are on the wire: every decode builds its values from
# the octets it is given. The whole history is in the line (core.redecode_after_mutation runs it and puts the edited
# objects back), so a failing line replays in a new process.
class _Decoded:
    def __init__(self, mu, r, held):
        self.mu, self.r, self.held = mu, r, held


_PARAM_GETTERS: Dict[type, List[str]] = {}


def _param_getters(r) -> List[str]:
    """every get_* method of the reserved-message class (found by name, so that a getter added later is probed as well)"""
    names = _PARAM_GETTERS.get(type(r))
    if names is None:
        names = sorted(n for n in dir(type(r)) if n.startswith("get_") and callable(getattr(type(r), n, None)))
        _PARAM_GETTERS[type(r)] = names
    return names


def _decode_params(buf) -> Optional[_Decoded]:
    mu = MessageToUserTlv.unpack(buf)
    r = mu.to_reserved_msg_tlv()
    if r is None:
        return None
    held: Dict[str, Any] = {}
    for n in _param_getters(r):
        try:
            held[n] = getattr(r, n)()
        except ValueError:
            held[n] = "!value"          # (a truncated message: the getter refuses, before and after)
        except TypeError:
            continue                    # (a get_* method that wants arguments is not a parameter getter)
    return _Decoded(mu, r, held)


def _params_view(d: _Decoded) -> Dict[str, Any]:
    """the parameter objects handed out when the message was decoded (as the application holds them) and what the getters
    answer when they are asked again"""
    out = {"mu": _tlv_view(d.mu), "r": _tlv_view(d.r), "held": core.public_view(d.held), "again": {}}
    for n, x in d.held.items():
        if x is None:
            continue                    # (not the getter of this message type)
        try:
            out["again"][n] = core.public_view(getattr(d.r, n)())
        except ValueError:
            out["again"][n] = "!value"
    return out


def _edit_params(d: _Decoded):
    restore = core.state_snapshot(d.held)       # (clean-up only)
    core.mutate_public(d.held)
    return restore


def _repacked(raw: bytes) -> bytes:
    """an equal message, built and packed afresh, followed by two further octets"""
    try:
        r = MessageToUserTlv.unpack(raw).to_reserved_msg_tlv()
        return bytes(ReservedCfdpMessage(int(r.get_reserved_cfdp_message_type()), bytes(r.value)[5:]).pack()) + b"\xa5\x5a"
    except Exception:  # noqa
        return raw + b"\xa5\x5a"


def _with_prior(fn):
    """op wrapper for the case key "prior" (see above); the op itself runs first and unchanged"""
    def wrapped(a):
        out = fn(a)
        prior = a.get("prior")
        if prior:
            own = a.get("raw") if isinstance(a.get("raw"), str) else (out.get("raw") if isinstance(out, dict) else None)
            own_raw = unhx(own) if isinstance(own, str) else b""
            for h in prior:
                hb = unhx(h)
                core.redecode_after_mutation(
                    _decode_params, hb, _params_view, _edit_params,
                    what="MessageToUserTlv.unpack(..).to_reserved_msg_tlv().get_*() [the parameter objects returned for the "
                         "first decode were edited in place through their public attributes]",
                    others=([own_raw] if own_raw != hb else []) + [_repacked(hb)])
        return out
    return wrapped


# ---------------------------------------------------------------- raw-based ops
def op_is_reserved(a):
    mu = _msg_to_user(unhx(a["raw"]), a.get("forms"))
    return {"reserved": bool(mu.is_reserved_cfdp_message()), "value": hx(mu.value)}


def op_is_reserved_value(a):
    mu = MessageToUserTlv(_oct(a, "value"))
    flag = bool(mu.is_reserved_cfdp_message())
    if not flag:
        _need(mu.to_reserved_msg_tlv() is None, "to_reserved_msg_tlv of a non-reserved message is not None")
    return {"reserved": flag}


def op_to_reserved(a):
    r = _reserved_of(unhx(a["raw"]), a.get("forms"))
    if r is None:
        return {"none": True}
    return {"none": False, **_classify(r)}


def _lenient(a, fn):
    """`lenient`: a truncated message for which refusal with ValueError and decoding the octets that are there
    are both allowed by the property; only an undocumented exception is then a difference"""
    if not a.get("lenient"):
        return fn()
    try:
        fn()
    except ValueError:
        pass
    return {"lenient": True}


def op_get(a):
    def run():
        r = _reserved_of(unhx(a["raw"]), a.get("forms"))
        if r is None:
            return {"reserved": False}
        return {"reserved": True, "res": GET[a["getter"]](r)}
    return _lenient(a, run)


def op_view(a):
    def run():
        r = _reserved_of(unhx(a["raw"]), a.get("forms"))
        if r is None:
            return {"reserved": False}
        return {"reserved": True, "view": _view(r)}
    return _lenient(a, run)


def op_new(a):
    r = ReservedCfdpMessage(_msg_type(a["msg_type"], _f(a, "msg_type")), _oct(a, "value"))
    raw = core.pack_stable(r, "ReservedCfdpMessage.pack()")
    _need(len(raw) == r.packet_len, "len(pack()) != packet_len")
    return {"raw": hx(raw), **_classify(r)}


# ---------------------------------------------------------------- builders: pack -> TLV -> reserved -> parameters
def _roundtrip(msg, a, same_params=None):
    _need(isinstance(msg, ReservedCfdpMessage), "builder is not a ReservedCfdpMessage")
    # (packs twice, the caller extending / modifying the first returned buffer in between)
    raw = core.pack_stable(msg, type(msg).__name__ + ".pack()")
    _need(len(raw) == msg.packet_len, f"len(pack())={len(raw)} != packet_len={msg.packet_len}")
    _need(int(msg.tlv_type) == int(TlvType.MESSAGE_TO_USER) == raw[0], "reserved message is not a message-to-user TLV")
    g = msg.to_generic_msg_to_user_tlv()
    _need(isinstance(g, MessageToUserTlv) and core.pack_stable(g, "to_generic_msg_to_user_tlv().pack()") == raw,
          "to_generic_msg_to_user_tlv() packs differently")
    _need(bytes(msg.pack()) == raw, "pack() after to_generic_msg_to_user_tlv().pack() gives different octets")
    mu = _msg_to_user(raw + unhx(a["suffix"]), a.get("forms"))
    r2 = mu.to_reserved_msg_tlv()
    if r2 is None:
        return {"raw": hx(raw), "reserved": False}
    core.ISOLATION.check("ReservedCfdpMessage", r2, _tlv_view)
    v = _view(r2)
    # the builder object itself must show the same parameters as the decoded one
    _need(_view(msg) == v, "getters of the builder object and of the decoded message disagree")
    if same_params is not None:
        same_params(r2)
    return {"raw": hx(raw), "packet_len": int(msg.packet_len), "reserved": bool(mu.is_reserved_cfdp_message()),
            "same": bool(r2 == msg and msg == r2 and g == mu and bytes(r2.pack()) == raw), "view": v}


def op_b_put_request(a):
    ident = _field(a, "dest")
    params = ProxyPutRequestParams(ident, CfdpLv(_oct(a, "src")), CfdpLv(_oct(a, "dst")))

    def same(r2):
        p = r2.get_proxy_put_request_params()
        _need(p is not None and p == params and p.dest_entity_id.byte_len == ident.byte_len,
              "decoded proxy put request parameters != original parameters")
    return _roundtrip(ProxyPutRequest(params), a, same if a["dest_w"] in W else None)


def op_b_cancel(a):
    return _roundtrip(ProxyCancelRequest(), a)


def op_b_closure(a):
    return _roundtrip(ProxyClosureRequest(core.flag_form(a["flag"], _f(a, "flag"))), a)


def op_b_tx_mode(a):
    return _roundtrip(ProxyTransmissionMode(_arg(TransmissionMode, a, "mode")), a)


def op_b_orig_id(a):
    tid = TransactionId(_field(a, "src"), _field(a, "seq"))

    def same(r2):
        t = r2.get_originating_transaction_id()
        _need(t is not None and t == tid and tid == t and hash(t) == hash(tid), "decoded transaction ID != original (==/hash)")
        _need(t.source_id == tid.source_id and t.seq_num == tid.seq_num, "decoded ID fields != original (width or value)")
    return _roundtrip(OriginatingTransactionId(tid), a, same)


def _dir_params(a) -> DirectoryParams:
    return DirectoryParams(CfdpLv(_oct(a, "path")), CfdpLv(_oct(a, "name")))


def op_b_dir_request(a):
    p = _dir_params(a)

    def same(r2):
        _need(r2.get_dir_listing_request_params() == p, "decoded directory parameters != original")
    return _roundtrip(DirectoryListingRequest(p), a, same)


def op_b_dir_response(a):
    p = _dir_params(a)

    def same(r2):
        x = r2.get_dir_listing_response_params()
        _need(x is not None and bool(x[0]) == a["success"] and x[1] == p, "decoded listing response != original")
    return _roundtrip(DirectoryListingResponse(core.flag_form(a["success"], _f(a, "success")), p), a, same)


def op_b_dir_params(a):
    o = DirListingOptions(core.flag_form(a["recursive"], _f(a, "recursive")), core.flag_form(a["all"], _f(a, "all")))

    def same(r2):
        _need(r2.get_dir_listing_options() == o, "decoded listing options != original")
    return _roundtrip(DirectoryListingParameters(o), a, same if a["recursive"] in (0, 1) and a["all"] in (0, 1) else None)


def op_b_put_response(a):
    cc, dc, fs = _arg(ConditionCode, a, "cc"), _arg(DeliveryCode, a, "dc"), _arg(FileStatus, a, "fs")
    if a.get("via_finished"):
        params = ProxyPutResponseParams.from_finished_params(FinishedParams(cc, dc, fs))
        _need(params == ProxyPutResponseParams(cc, dc, fs), "from_finished_params does not copy the three codes")
    else:
        params = ProxyPutResponseParams(cc, dc, fs)

    def same(r2):
        _need(r2.get_proxy_put_response_params() == params, "decoded put response parameters != original")
    return _roundtrip(ProxyPutResponse(params), a, same)


# ---------------------------------------------------------------- helpers around the parameter records
def _dec(h: str) -> str:
    try:
        return unhx(h).decode()
    except UnicodeDecodeError:
        raise InfraError("generator produced a constructor-side name that is not UTF-8")


def op_str(a):
    la, lb = CfdpLv(_oct(a, "a")), CfdpLv(_oct(a, "b"))
    if a["kind"] == "put":
        p = ProxyPutRequestParams(ByteFieldU8(1), la, lb)
        return {"a": hx(p.source_file_as_str.encode()), "b": hx(p.dest_file_as_str.encode())}
    p = DirectoryParams(la, lb)
    return {"a": hx(p.dir_path_as_str.encode()), "b": hx(p.dir_file_name_as_str.encode())}


def op_dir_from_strs(a):
    return _dirp(DirectoryParams.from_strs(_dec(a["path"]), _dec(a["name"])))


def op_tid_eq(a):
    x = TransactionId(_field(a["a"], "src"), _field(a["a"], "seq"))
    y = TransactionId(_field(a["b"], "src"), _field(a["b"], "seq"))
    e = x == y
    _need((y == x) == e, "TransactionId.__eq__ is not symmetric")
    if e:
        _need(hash(x) == hash(y), "equal transaction IDs hash differently")
    return {"eq": bool(e), "hash_eq": bool((x.source_id.value, x.seq_num.value) == (y.source_id.value, y.seq_num.value))}


OPS = {
    "rsv_is_reserved": op_is_reserved, "rsv_is_reserved_value": op_is_reserved_value, "rsv_to_reserved": op_to_reserved,
    "rsv_get": op_get, "rsv_view": op_view, "rsv_new": op_new,
    "rsv_b_put_request": op_b_put_request, "rsv_b_cancel": op_b_cancel, "rsv_b_closure": op_b_closure,
    "rsv_b_tx_mode": op_b_tx_mode, "rsv_b_orig_id": op_b_orig_id, "rsv_b_dir_request": op_b_dir_request,
    "rsv_b_dir_response": op_b_dir_response, "rsv_b_dir_params": op_b_dir_params,
    "rsv_b_put_response": op_b_put_response, "rsv_str": op_str, "rsv_dir_from_strs": op_dir_from_strs,
    "rsv_tid_eq": op_tid_eq,
}
for _n in list(OPS):
    if _n in ("rsv_get", "rsv_view", "rsv_to_reserved") or _n.startswith("rsv_b_"):
        OPS[_n] = _with_prior(OPS[_n])


# ---------------------------------------------------------------- generator helpers (independent of the implementation)
NAMES = [b"", b"a", b"test.txt", b"/tmp/dir/file.bin", "ä.txt".encode(), "€".encode(), "𝄞.wav".encode(),
         "名前/ファイル".encode(), b"\x00", b"\xff\xfe", b"cfdp", b"\x02\x01\x00"]
BAD_UTF8 = [b"\x80", b"\xc0\x80", b"\xe2\x82", b"\xed\xa0\x80", b"\xf4\x90\x80\x80", b"\xff", b"ab\xffcd"]


def rand_utf8(rng: random.Random, n: int) -> bytes:
    """valid UTF-8 of exactly n octets mixing 1/2/3/4-octet characters"""
    out = b""
    while len(out) < n:
        room = n - len(out)
        k = rng.random()
        if k < 0.5 or room == 1:
            ch = chr(rng.randint(0x20, 0x7E))
        elif k < 0.7 or room == 2:
            ch = chr(rng.randint(0x80, 0x7FF))
        elif k < 0.88 or room == 3:
            c = rng.randint(0x800, 0xFFFF)
            ch = chr(c if not 0xD800 <= c <= 0xDFFF else 0x20AC)
        else:
            ch = chr(rng.randint(0x10000, 0x10FFFF))
        out += ch.encode()
    return out


def name(rng: random.Random, n: int) -> bytes:
    """n octets: text (ASCII / multi-octet UTF-8) or arbitrary octets — LV values are octet strings"""
    k = rng.random()
    if k < 0.45:
        return rand_utf8(rng, n)
    if k < 0.7:
        return bytes(rng.randint(0x20, 0x7E) for _ in range(n))
    return rbytes(rng, n)


def lv(v: bytes) -> bytes:
    return bytes([len(v) & 0xFF]) + v


def tlv(v: bytes, t: int = 2) -> bytes:
    return bytes([t, len(v) & 0xFF]) + v


def be(w: int, v: int) -> bytes:
    return v.to_bytes(w, "big")


def v_put_req(w, v, s, d):
    return MARKER + b"\x00" + lv(be(w, v)) + lv(s) + lv(d)


def v_orig(sw, sv, qw, qv):
    return MARKER + b"\x0a" + bytes([((sw - 1) << 4) | (qw - 1)]) + be(sw, sv) + be(qw, qv)


def v_dir_req(p, n):
    return MARKER + b"\x10" + lv(p) + lv(n)


def v_dir_resp(ok, p, n):
    return MARKER + b"\x11" + bytes([0x80 if ok else 0]) + lv(p) + lv(n)


def orig_truncated(v: bytes) -> bool:
    """an originating-ID message whose width octet announces more octets than the value carries"""
    if len(v) < 6 or v[:5] != MARKER + b"\x0a":
        return False
    return len(v) < 6 + ((v[5] >> 4) & 7) + 1 + (v[5] & 7) + 1


def get_case(v: bytes, getter: str, expect: str, tag: str, errclass: bool = False, more: bytes = b"") -> Case:
    """rsv_get on the TLV of value v; truncated originating-ID messages are compared leniently"""
    op = {"op": "rsv_get", "raw": hx(tlv(v) + more), "getter": getter}
    if getter == "orig_id" and orig_truncated(v):
        op["lenient"] = True
        return Case(op, "valid", tag=tag + "-lenient")
    return Case(op, expect, errclass=errclass, tag=tag)


def raw_view_case(raw: bytes, expect: str, tag: str) -> Case:
    """rsv_view on arbitrary octets; lenient when they happen to hold a truncated originating-ID message"""
    op = {"op": "rsv_view", "raw": hx(raw)}
    if len(raw) >= 2 and raw[0] == 2 and len(raw) >= 2 + raw[1] and orig_truncated(raw[2:2 + raw[1]]):
        op["lenient"] = True
        return Case(op, "valid", tag=tag + "-lenient")
    return Case(op, expect, tag=tag)


def view_case(v: bytes, expect: str, tag: str) -> Case:
    op = {"op": "rsv_view", "raw": hx(tlv(v))}
    if orig_truncated(v):
        op["lenient"] = True
        return Case(op, "valid", tag=tag + "-lenient")
    return Case(op, expect, tag=tag)


def ivals(w: int, rng: random.Random) -> List[int]:
    return pool(256 ** w - 1, rng, extra=1)


def sfx(rng: random.Random) -> str:
    return rng.choice(SUFFIXES) if rng.random() < 0.5 else ""


# ---------------------------------------------------------------- forms the UNCHANGED library accepts, per op argument
# (established on /repo 066f1b2: message types / codes are appended to a bytearray or shifted and or-ed, flags are shifted or
# put into bytes([..]), so member, plain int and a member of a foreign IntEnum - bool and int for a flag - behave alike; octet
# arguments are measured, sliced and extended, so bytes and bytearray behave alike. memoryview is NOT generated: no signature
# names it and the *_as_str accessors refuse it today)
_T, _FL, _O = core.CODE_FORMS, core.FLAG_FORMS, core.OCTET_FORMS
_DECODE_SPEC = {"raw": _O, "tlv_type": (None, "member", "int", "other"), "type_via": ("ctor", "setter")}
_ROUTE_SPEC = {"tlv_type": (None, "int", "other"), "type_via": ("ctor", "setter")}
# op -> (share of the generated cases of that op that are repeated once with drawn forms, spec)
_FORM_SPEC = {
    "rsv_is_reserved": (0.1, _DECODE_SPEC), "rsv_to_reserved": (0.1, _DECODE_SPEC), "rsv_get": (0.025, _DECODE_SPEC),
    "rsv_view": (0.025, _DECODE_SPEC), "rsv_is_reserved_value": (0.05, {"value": _O}),
    "rsv_new": (0.25, {"msg_type": _T, "value": _O}),
    "rsv_b_put_request": (0.1, {"src": _O, "dst": _O, **_ROUTE_SPEC}), "rsv_b_cancel": (1.0, _ROUTE_SPEC),
    "rsv_b_closure": (1.0, {"flag": _FL, **_ROUTE_SPEC}), "rsv_b_tx_mode": (1.0, {"mode": _T, **_ROUTE_SPEC}),
    "rsv_b_orig_id": (0.1, _ROUTE_SPEC), "rsv_b_dir_request": (0.1, {"path": _O, "name": _O, **_ROUTE_SPEC}),
    "rsv_b_dir_response": (0.1, {"success": _FL, "path": _O, "name": _O, **_ROUTE_SPEC}),
    "rsv_b_dir_params": (1.0, {"recursive": _FL, "all": _FL, **_ROUTE_SPEC}),
    "rsv_b_put_response": (0.5, {"cc": _T, "dc": _T, "fs": _T, **_ROUTE_SPEC}),
    "rsv_str": (0.2, {"a": _O, "b": _O}),
}


def _form_variant(c: Case, frng: random.Random):
    """the case once more, its arguments in forms drawn from the table above (None: not this time)"""
    spec = _FORM_SPEC.get(c.op["op"])
    if spec is None or frng.random() >= spec[0] or "forms" in c.op:
        return None
    forms = core.draw_forms(frng, spec[1])
    if "tlv_type" not in forms:
        forms.pop("type_via", None)
    return core.case_with_forms(c, forms) if forms else None


class C18(Prop):
    id = "C18"
    title = "Reserved CFDP messages round-trip via TLVs"
    lean_modules = ["SpVerif.Props.C18"]
    exhaustive_note = ("every builder with every enum value (13 condition codes x 2 delivery codes x 4 file statuses, both "
                       "transmission modes, both closure flags, 4 listing-option pairs, listing success yes/no); all 16 "
                       "(source width, sequence-number width) pairs of the originating transaction ID and all four destination "
                       "entity-ID widths with boundary values; every total name length 0..max of the proxy put request and of "
                       "both directory listing messages; all 256 message-type octets through conversion, classification and "
                       "all eight getters; all 256 values of every parameter octet (put response, closure, transmission "
                       "mode, listing options, listing-response flag, originating-ID width octet); all 256 substitutions of "
                       "each of the first four ('cfdp') octets for the reserved-message test; every truncation of sampled "
                       "messages of every kind; all 256 message types of the raw constructor as plain int and as member of a foreign "
                       "IntEnum, every flag as bool and int, every message kind taken over from a generic TLV whose type is the "
                       "message-to-user code as int / foreign member / member, by constructor and through the setter (case key 'forms')")
    trusted_base = ["names are octet strings (CfdpLv values) on both sides; the *_as_str accessors are modelled by "
                    "decodeUtf8 (utf8Valid tied to CPython's strict decoder by C08)",
                    "TransactionId.__eq__/__hash__ compare values only; widths are compared field by field in the payload"]
    assumptions = ["enum-typed parameters are members of the library's enumerations; closure/listing flags are bool; cases "
                   "with a 'forms' key pass the same codes as plain ints / members of a foreign IntEnum class, the same flags as "
                   "int 0/1 and the same octets as bytearray (the forms the library accepts on the unchanged tree)",
                   "ReservedCfdpMessage(msg_type, value) is called with an int and an octet string"]

    def impl_ops(self):
        return OPS

    def table_sync(self):
        d = []
        if sorted(int(x) for x in ProxyMessageType) != PROXY_TYPES:
            d.append("ProxyMessageType members")
        exp = {"PUT_REQUEST": 0, "TRANSMISSION_MODE": 4, "PUT_RESPONSE": 7, "PUT_CANCEL": 9, "CLOSURE_REQUEST": 11}
        for n, v in exp.items():
            if int(getattr(ProxyMessageType, n)) != v:
                d.append(f"ProxyMessageType.{n}")
        if sorted(int(x) for x in DirectoryOperationMessageType) != DIR_TYPES:
            d.append("DirectoryOperationMessageType members")
        exp = {"LISTING_REQUEST": 16, "LISTING_RESPONSE": 17, "CUSTOM_LISTING_PARAMETERS": 21}
        for n, v in exp.items():
            if int(getattr(DirectoryOperationMessageType, n)) != v:
                d.append(f"DirectoryOperationMessageType.{n}")
        if ORIGINATING_TRANSACTION_ID_MSG_TYPE_ID != ORIG_TYPE:
            d.append("ORIGINATING_TRANSACTION_ID_MSG_TYPE_ID")
        if sorted(int(x) for x in ConditionCode) != [-1] + CC_MEMBERS:
            d.append("ConditionCode members")
        if sorted(int(x) for x in DeliveryCode) != [0, 1]:
            d.append("DeliveryCode members")
        if sorted(int(x) for x in FileStatus) != [0, 1, 2, 3]:
            d.append("FileStatus members")
        if sorted(int(x) for x in TransmissionMode) != [0, 1]:
            d.append("TransmissionMode members")
        if int(TlvType.MESSAGE_TO_USER) != 2 or int(MessageToUserTlv.TLV_TYPE) != 2:
            d.append("TlvType.MESSAGE_TO_USER")
        # every member the ops use BY NAME against the tables of the standard (a swap leaves the set of values intact)
        d += core.std_table_diffs((ProxyMessageType, DirectoryOperationMessageType, ConditionCode, DeliveryCode, FileStatus,
                                   TransmissionMode, TlvType))
        if bytes(tlvmod.create_cfdp_proxy_and_dir_op_message_marker()) != MARKER:
            d.append("cfdp marker")
        return d

    def nontrivial(self, c: Case) -> bool:
        def nz(v):
            if isinstance(v, dict):
                return any(nz(x) for x in v.values())
            if isinstance(v, str):
                return v.strip("0") != ""
            return v not in (0, None, False)
        return any(nz(v) for k, v in c.op.items() if k not in ("op", "getter", "kind", "suffix"))

    def neighbours(self, c: Case, rng: random.Random) -> Iterator[Case]:
        o = c.op
        if isinstance(o.get("raw"), str):
            raw = unhx(o["raw"])
            for k in range(len(raw)):
                yield Case({**o, "raw": hx(raw[:k])}, "any", tag="nb-truncation")
                if k >= 2:
                    yield Case({**o, "raw": hx(tlv(raw[2:k]))}, "any", tag="nb-value-truncation")
            for i in range(min(len(raw), 12)):
                for v in (0, 1, 2, 7, 10, 0x63, 255):
                    b = bytearray(raw)
                    b[i] = v
                    yield Case({**o, "raw": hx(bytes(b))}, "any", tag="nb-subst")
        for k in ("src", "dst", "path", "name"):
            if isinstance(o.get(k), str):
                for n in (0, 1, 100, 200):
                    yield Case({**o, k: hx(rbytes(rng, n))}, "any", tag="nb-name-len")

    # ------------------------------------------------------------------------------------------
    def cases(self, rng: random.Random, tier: str) -> Iterator[Case]:
        """the generated stream (unchanged), followed by the TYPE-COERCION dimension: a share of those cases once more with
        their arguments in other forms (own random stream: the stream above is the same with and without it), and the
        exhaustive tables of gen_forms"""
        frng = core.forms_rng(rng)
        later: List[Case] = []
        for c in self.base_cases(rng, tier):
            yield c
            v = _form_variant(c, frng)
            if v is not None:
                later.append(v)
        yield from later
        yield from self.gen_forms(frng, tier == "thorough")

    # -- every message type / code / flag in every form; every message kind taken over from a generic TLV of int type -----
    def gen_forms(self, frng, thorough):
        routes = [{"tlv_type": tf, **({"type_via": "setter"} if via == "setter" else {})}
                  for tf in ("int", "other", "member") for via in ("ctor", "setter")]
        # the raw constructor: all 256 message types as int / as foreign member (quick tier: the types the library names in
        # both forms, the others in one of them)
        named = PROXY_TYPES + DIR_TYPES + [ORIG_TYPE]
        for t in range(256):
            for tf in (("int", "other") if thorough or t in named else (("int", "other")[t % 2],)):
                f = {"msg_type": tf, **({"value": "bytearray"} if (t + len(tf)) % 2 else {})}
                yield Case({"op": "rsv_new", "msg_type": t, "value": hx(rbytes(frng, frng.choice([0, 1, 5, 30]))), "forms": f},
                           "valid", tag="forms-all-types")
        for t in (-1, 256, 257):
            for tf in ("int", "other"):
                yield Case({"op": "rsv_new", "msg_type": t, "value": "00", "forms": {"msg_type": tf}}, "invalid",
                           tag="forms-type-not-an-octet")
        # the one-octet builders: every value in every form, every route
        for r in routes:
            yield Case({"op": "rsv_b_cancel", "suffix": sfx(frng), "forms": r}, "valid", tag="forms-cancel")
            for f in (0, 1):
                for ff in _FL:
                    yield Case({"op": "rsv_b_closure", "flag": f, "suffix": sfx(frng), "forms": {"flag": ff, **r}}, "valid",
                               tag="forms-closure")
                    yield Case({"op": "rsv_b_dir_params", "recursive": f, "all": 1 - f, "suffix": sfx(frng),
                                "forms": {"recursive": ff, "all": frng.choice(_FL), **r}}, "valid", tag="forms-listing-options")
                    yield Case({"op": "rsv_b_dir_params", "recursive": f, "all": f, "suffix": sfx(frng),
                                "forms": {"recursive": frng.choice(_FL), "all": ff, **r}}, "valid", tag="forms-listing-options")
                    yield Case({"op": "rsv_b_dir_response", "path": hx(name(frng, 5)), "name": hx(name(frng, 9)), "success": bool(f),
                                "suffix": sfx(frng), "forms": {"success": ff, "path": frng.choice(_O), **r}}, "valid",
                               tag="forms-listing-response")
                for tf in _T:
                    yield Case({"op": "rsv_b_tx_mode", "mode": f, "suffix": sfx(frng), "forms": {"mode": tf, **r}}, "valid",
                               tag="forms-tx-mode")
        for cc in CC_MEMBERS:
            for dc in (0, 1):
                for fs in range(4):
                    for tf in (("int", "other") if thorough else (("int", "other")[(cc + dc + fs) % 2],)):
                        f = {"cc": tf, "dc": frng.choice(_T), "fs": frng.choice(_T)}
                        f[frng.choice(["dc", "fs"])] = tf
                        yield Case({"op": "rsv_b_put_response", "cc": cc, "dc": dc, "fs": fs, "via_finished": bool((cc + fs) & 1),
                                    "suffix": sfx(frng), "forms": {**f, **frng.choice(routes + [{}, {}])}}, "valid",
                                   tag="forms-all-enum-values")
        # every message kind decoded, taken over from the generic TLV of int / foreign / member type, parameters read
        for _ in range(20 if thorough else 1):
            for r in routes:
                w, sw, qw = frng.choice(W), frng.choice(W), frng.choice(W)
                kinds = [(v_put_req(w, frng.randrange(256 ** w), name(frng, frng.randint(0, 9)), name(frng, frng.randint(0, 9))), "put_req"),
                         (v_orig(sw, frng.randrange(256 ** sw), qw, frng.randrange(256 ** qw)), "orig_id"),
                         (MARKER + b"\x07" + bytes([(frng.choice(CC_MEMBERS) << 4) | frng.randrange(8)]), "put_resp"),
                         (MARKER + b"\x0b" + bytes([frng.randrange(2)]), "closure"), (MARKER + b"\x04" + bytes([frng.randrange(2)]), "tx_mode"),
                         (v_dir_req(name(frng, 4), name(frng, 6)), "dir_req"), (v_dir_resp(bool(frng.getrandbits(1)), name(frng, 4), name(frng, 4)), "dir_resp"),
                         (MARKER + b"\x15" + bytes([frng.randrange(4)]), "dir_opts"), (MARKER + b"\x09", "put_req"),
                         (rbytes(frng, frng.randint(0, 12)), "closure"), (b"cfd", "orig_id"), (b"cfdp", "dir_req")]
                for v, g in kinds:
                    f = {**r, **({"raw": "bytearray"} if frng.random() < 0.5 else {})}
                    raw = hx(tlv(v) + unhx(sfx(frng)))
                    yield Case({"op": "rsv_view", "raw": raw, "forms": f}, "valid", tag="forms-decode-route")
                    yield Case({"op": "rsv_get", "raw": raw, "getter": g, "forms": f}, "valid", tag="forms-decode-route")
                    yield Case({"op": "rsv_is_reserved", "raw": raw, "forms": f}, "valid", tag="forms-decode-route")

    def base_cases(self, rng: random.Random, tier: str) -> Iterator[Case]:
        thorough = tier == "thorough"
        R = 60 if thorough else 3
        yield from self.gen_put_request(rng, R, thorough)
        yield from self.gen_orig_id(rng, R)
        yield from self.gen_small_builders(rng, R)
        yield from self.gen_dir(rng, R, thorough)
        yield from self.gen_not_reserved(rng, R)
        yield from self.gen_classification(rng, R)
        yield from self.gen_octet_sweeps(rng, R)
        yield from self.gen_malformed(rng, R)
        yield from self.gen_records(rng, R)
        yield from self.gen_sequences(rng, R)
        yield from self.gen_edited(rng, R)

    # -- parameter objects edited in place by the application, then the same / an equal message decoded again (key "prior") --
    def gen_edited(self, rng, R):
        def both(v: bytes, g: str, expect: str = "valid", prior=None, more: bytes = b""):
            pr = [hx(tlv(x)) for x in (prior if prior is not None else [v])]
            yield Case({"op": "rsv_get", "raw": hx(tlv(v) + more), "getter": g, "prior": pr}, expect, tag="edited-then-decoded")
            if expect == "valid" and rng.random() < 0.12:
                yield Case({"op": "rsv_view", "raw": hx(tlv(v) + more), "prior": pr}, expect, tag="edited-then-decoded")

        # proxy put response: every parameter octet; the earlier message is the same one, or another one with that octet
        for b in range(256):
            v = MARKER + b"\x07" + bytes([b])
            ok = "valid" if (b >> 4) in CC_MEMBERS else "invalid"
            k = b % 3
            yield from both(v, "put_resp", ok, prior=[v] if k == 0 else [v + rbytes(rng, 1 + b % 4)] if k == 1 else [v, v], more=unhx(sfx(rng)))
        for cc in CC_MEMBERS:
            dc, fs = rng.randrange(2), rng.randrange(4)
            yield Case({"op": "rsv_b_put_response", "cc": cc, "dc": dc, "fs": fs, "via_finished": bool(cc & 1), "suffix": sfx(rng),
                        "prior": [hx(tlv(MARKER + b"\x07" + bytes([(cc << 4) | (dc << 2) | fs])))]}, "valid", tag="edited-then-built")
        # originating transaction ID: all 16 width pairs
        for sw in W:
            for qw in W:
                sv, qv = rng.randrange(256 ** sw), rng.randrange(256 ** qw)
                yield from both(v_orig(sw, sv, qw, qv), "orig_id")
                if rng.random() < 0.4:
                    yield Case({"op": "rsv_b_orig_id", "src_w": sw, "src_v": sv, "seq_w": qw, "seq_v": qv, "suffix": sfx(rng),
                                "prior": [hx(tlv(v_orig(sw, sv, qw, qv)))]}, "valid", tag="edited-then-built")
        # proxy put request, directory listing request / response: names of several lengths
        for w in W:
            for _ in range(2 * R):
                dv, s, d = rng.randrange(256 ** w), name(rng, rng.randint(0, 12)), name(rng, rng.randint(0, 12))
                yield from both(v_put_req(w, dv, s, d), "put_req")
                if rng.random() < 0.4:
                    yield Case({"op": "rsv_b_put_request", "dest_w": w, "dest_v": dv, "src": hx(s), "dst": hx(d), "suffix": sfx(rng),
                                "prior": [hx(tlv(v_put_req(w, dv, s, d)))]}, "valid", tag="edited-then-built")
        for _ in range(4 * R):
            p, n = name(rng, rng.randint(0, 12)), name(rng, rng.randint(0, 12))
            ok = bool(rng.getrandbits(1))
            yield from both(v_dir_req(p, n), "dir_req")
            yield from both(v_dir_resp(ok, p, n), "dir_resp")
            yield Case({"op": "rsv_b_dir_response", "path": hx(p), "name": hx(n), "success": ok, "suffix": sfx(rng),
                        "prior": [hx(tlv(v_dir_resp(ok, p, n))), hx(tlv(v_dir_req(p, n)))]}, "valid", tag="edited-then-built")
            yield Case({"op": "rsv_b_dir_request", "path": hx(p), "name": hx(n), "suffix": sfx(rng),
                        "prior": [hx(tlv(v_dir_req(p, n)))]}, "valid", tag="edited-then-built")
        # the one-octet parameters (listing options, closure flag, transmission mode): every value of the bits that count
        for b in list(range(8)) + [0x80, 0xFE, 0xFF]:
            o = bytes([b])
            yield from both(MARKER + b"\x15" + o, "dir_opts")
            yield from both(MARKER + b"\x0b" + o, "closure")
            yield from both(MARKER + b"\x04" + o, "tx_mode")
        for r in (0, 1):
            for al in (0, 1):
                yield Case({"op": "rsv_b_dir_params", "recursive": r, "all": al, "suffix": sfx(rng),
                            "prior": [hx(tlv(MARKER + b"\x15" + bytes([(r << 1) | al])))]}, "valid", tag="edited-then-built")
        # messages of every kind decoded and edited before one of them is decoded again
        for _ in range(4 * R):
            w = rng.choice(W)
            kinds = [(v_put_req(w, rng.randrange(256 ** w), name(rng, 5), name(rng, 7)), "put_req"),
                     (v_orig(w, rng.randrange(256 ** w), 2, rng.randrange(65536)), "orig_id"),
                     (MARKER + b"\x07" + bytes([(rng.choice(CC_MEMBERS) << 4) | rng.randrange(8)]), "put_resp"),
                     (v_dir_resp(True, name(rng, 4), name(rng, 4)), "dir_resp"), (MARKER + b"\x15\x02", "dir_opts")]
            v, g = rng.choice(kinds)
            yield from both(v, g, prior=[x for x, _ in kinds])

    # -- sequences: a message decoded earlier must not follow a later decode; long messages packed repeatedly ---------
    def gen_sequences(self, rng, R):
        for _ in range(20 * R):
            w, sw, qw = rng.choice(W), rng.choice(W), rng.choice(W)
            a = v_put_req(w, rng.randrange(256 ** w), name(rng, rng.randint(40, 100)), name(rng, rng.randint(40, 100)))
            b = v_orig(sw, rng.randrange(256 ** sw), qw, rng.randrange(256 ** qw))
            c = v_dir_resp(bool(rng.getrandbits(1)), name(rng, rng.randint(0, 9)), name(rng, rng.randint(70, 120)))
            d = rbytes(rng, rng.randint(0, 12))
            for v in (a, b, a, c, d, c, b):
                yield view_case(v, "valid", "seq-decode")
                if rng.random() < 0.3:
                    yield Case({"op": "rsv_is_reserved", "raw": hx(tlv(v) + rbytes(rng, 2))}, "valid", tag="seq-decode")
            yield Case({"op": "rsv_b_dir_request", "path": hx(name(rng, rng.randint(64, 120))), "name": hx(name(rng, rng.randint(0, 100))),
                        "suffix": sfx(rng)}, "valid", tag="seq-pack-long")
            yield Case({"op": "rsv_new", "msg_type": rng.choice(PROXY_TYPES + DIR_TYPES + [ORIG_TYPE]),
                        "value": hx(rbytes(rng, rng.randint(64, 250)))}, "valid", tag="seq-pack-long")

    # -- proxy put request -------------------------------------------------------------------------
    def gen_put_request(self, rng, R, thorough):
        op = "rsv_b_put_request"
        for w in W:
            cap = 247 - w           # 5 + (1 + w) + (1 + s) + (1 + d) <= 255
            for v in ivals(w, rng):
                for _ in range(R):
                    s, d = name(rng, rng.randint(0, 20)), name(rng, rng.randint(0, 20))
                    yield Case({"op": op, "dest_w": w, "dest_v": v, "src": hx(s), "dst": hx(d), "suffix": sfx(rng)},
                               "valid", tag="width-x-value")
            for nm in NAMES:
                yield Case({"op": op, "dest_w": w, "dest_v": rng.randrange(256 ** w), "src": hx(nm),
                            "dst": hx(rng.choice(NAMES)), "suffix": sfx(rng)}, "valid", tag="crafted-names")
            plans = [(0, 0), (cap, 0), (0, cap), (cap // 2, cap - cap // 2), (1, cap - 1), (cap - 1, 1), (cap - 1, 0),
                     (0, cap - 1), (128, cap - 128), (127, 1)]
            for s, d in plans:
                yield Case({"op": op, "dest_w": w, "dest_v": rng.randrange(256 ** w), "src": hx(name(rng, s)),
                            "dst": hx(name(rng, d)), "suffix": sfx(rng)}, "valid", tag="name-length-boundary")
            for s, d in [(cap + 1, 0), (0, cap + 1), (cap // 2 + 1, cap - cap // 2), (255, 0), (0, 255), (255, 255),
                         (256, 0), (0, 256), (300, 300), (cap, 1)]:
                yield Case({"op": op, "dest_w": w, "dest_v": rng.randrange(256 ** w), "src": hx(name(rng, s)),
                            "dst": hx(name(rng, d)), "suffix": ""}, "invalid", tag="too-long")
            step = 1 if (thorough or w == 1) else 5
            for n in range(0, cap + 1, step):
                s = rng.randint(0, n) if rng.random() < 0.5 else n
                yield Case({"op": op, "dest_w": w, "dest_v": rng.randrange(256 ** w), "src": hx(name(rng, s)),
                            "dst": hx(name(rng, n - s)), "suffix": sfx(rng)}, "valid", tag="total-length-sweep")
            for v in (256 ** w, 256 ** w + 1, -1):
                yield Case({"op": op, "dest_w": w, "dest_v": v, "src": "61", "dst": "62", "suffix": ""}, "invalid",
                           tag="id-out-of-range")
        for w in (3, 5, 7, 9, 16, -1):
            yield Case({"op": op, "dest_w": w, "dest_v": 1, "src": "61", "dst": "62", "suffix": ""}, "invalid",
                       tag="id-bad-width")
        # an empty entity ID can be packed but its LV does not decode to an ID again
        yield Case({"op": op, "dest_w": 0, "dest_v": 0, "src": "61", "dst": "62", "suffix": ""}, "any", tag="id-empty")

    # -- originating transaction ID ---------------------------------------------------------------------------
    def gen_orig_id(self, rng, R):
        op = "rsv_b_orig_id"
        for sw in W:
            for qw in W:
                sm, qm = 256 ** sw - 1, 256 ** qw - 1
                combos = [(0, 0), (sm, qm), (1, qm - 1), (sm - 1, 1), (sm, 0), (0, qm), (sm // 2 + 1, qm // 2),
                          (256 ** (sw - 1), 256 ** (qw - 1))]
                combos += [(rng.randint(0, sm), rng.randint(0, qm)) for _ in range(6 * R)]
                for sv, qv in combos:
                    yield Case({"op": op, "src_w": sw, "src_v": sv, "seq_w": qw, "seq_v": qv, "suffix": sfx(rng)},
                               "valid", tag="all-width-pairs")
        for sw, qw in [(0, 1), (1, 0), (0, 0), (0, 8), (4, 0)]:
            yield Case({"op": op, "src_w": sw, "src_v": 0, "seq_w": qw, "seq_v": 0, "suffix": ""}, "invalid",
                       tag="empty-width")
        for sw, qw in [(3, 1), (1, 3), (5, 5), (16, 1)]:
            yield Case({"op": op, "src_w": sw, "src_v": 0, "seq_w": qw, "seq_v": 0, "suffix": ""}, "invalid",
                       tag="bad-width")
        for w in W:
            yield Case({"op": op, "src_w": w, "src_v": 256 ** w, "seq_w": 1, "seq_v": 0, "suffix": ""}, "invalid",
                       tag="value-out-of-range")
        # TransactionId equality and hash: values only
        for _ in range(40 * R):
            a = {"src_w": rng.choice(W), "seq_w": rng.choice(W)}
            a["src_v"] = rng.randrange(256 ** min(a["src_w"], 2))
            a["seq_v"] = rng.randrange(256 ** min(a["seq_w"], 2))
            b = dict(a)
            k = rng.random()
            if k < 0.3:
                b["src_w"], b["seq_w"] = 8, 8
            elif k < 0.6:
                b["src_v"] = (a["src_v"] + rng.choice([0, 1])) % 256
            elif k < 0.8:
                b["seq_v"] = (a["seq_v"] + 1) % 256
            yield Case({"op": "rsv_tid_eq", "a": a, "b": b}, "valid", tag="tid-eq")

    # -- the one-octet builders ------------------------------------------------------------------------------
    def gen_small_builders(self, rng, R):
        for s in SUFFIXES:
            yield Case({"op": "rsv_b_cancel", "suffix": s}, "valid", tag="cancel")
            for f in (0, 1):
                yield Case({"op": "rsv_b_closure", "flag": f, "suffix": s}, "valid", tag="closure-both")
                yield Case({"op": "rsv_b_tx_mode", "mode": f, "suffix": s}, "valid", tag="tx-mode-both")
            for r in (0, 1):
                for al in (0, 1):
                    yield Case({"op": "rsv_b_dir_params", "recursive": r, "all": al, "suffix": s}, "valid",
                               tag="listing-options-all")
        for cc in CC_MEMBERS:
            for dc in (0, 1):
                for fs in range(4):
                    for via in (False, True):
                        yield Case({"op": "rsv_b_put_response", "cc": cc, "dc": dc, "fs": fs, "via_finished": via,
                                    "suffix": sfx(rng)}, "valid", tag="all-enum-values")
        for dc in (0, 1):
            for fs in range(4):
                yield Case({"op": "rsv_b_put_response", "cc": -1, "dc": dc, "fs": fs, "via_finished": False,
                            "suffix": ""}, "invalid", tag="no-condition-field")
        # the raw constructor
        for t in range(256):
            n = rng.choice([0, 1, 5, 30])
            yield Case({"op": "rsv_new", "msg_type": t, "value": hx(rbytes(rng, n))}, "valid", tag="all-types")
        for n in (249, 250):
            yield Case({"op": "rsv_new", "msg_type": rng.randrange(256), "value": hx(rbytes(rng, n))}, "valid",
                       tag="value-length-boundary")
        for n in (251, 252, 255, 256, 1000):
            yield Case({"op": "rsv_new", "msg_type": rng.randrange(256), "value": hx(rbytes(rng, n))}, "invalid",
                       tag="value-too-long")
        for t in (-1, -255, 256, 257, 1 << 16):
            yield Case({"op": "rsv_new", "msg_type": t, "value": "00"}, "invalid", tag="type-not-an-octet")

    # -- directory listing request / response ----------------------------------------------------------------------
    def gen_dir(self, rng, R, thorough):
        for op, cap, extra in (("rsv_b_dir_request", 248, {}), ("rsv_b_dir_response", 247, {"success": True}),
                               ("rsv_b_dir_response", 247, {"success": False})):
            for p in NAMES:
                yield Case({"op": op, "path": hx(p), "name": hx(rng.choice(NAMES)), "suffix": sfx(rng), **extra}, "valid",
                           tag="crafted-names")
            for s, d in [(0, 0), (cap, 0), (0, cap), (cap // 2, cap - cap // 2), (1, cap - 1), (cap - 1, 1),
                         (cap - 1, 0), (0, cap - 1)]:
                yield Case({"op": op, "path": hx(name(rng, s)), "name": hx(name(rng, d)), "suffix": sfx(rng), **extra},
                           "valid", tag="name-length-boundary")
            for s, d in [(cap + 1, 0), (0, cap + 1), (cap, 1), (255, 0), (0, 255), (256, 0), (0, 256), (255, 255)]:
                yield Case({"op": op, "path": hx(name(rng, s)), "name": hx(name(rng, d)), "suffix": "", **extra},
                           "invalid", tag="too-long")
            step = 1 if (thorough or op == "rsv_b_dir_request") else 3
            for n in range(0, cap + 1, step):
                s = rng.randint(0, n)
                yield Case({"op": op, "path": hx(name(rng, s)), "name": hx(name(rng, n - s)), "suffix": sfx(rng), **extra},
                           "valid", tag="total-length-sweep")
            for _ in range(40 * R):
                s = rng.randint(0, 60)
                yield Case({"op": op, "path": hx(name(rng, s)), "name": hx(name(rng, rng.randint(0, 60))),
                            "suffix": sfx(rng), **extra}, "valid", tag="random")

    # -- the reserved-message test answers False for every other content ------------------------------------------------
    def gen_not_reserved(self, rng, R):
        def both(v: bytes, exp: str, tag: str):
            yield Case({"op": "rsv_is_reserved_value", "value": hx(v)}, exp, tag=tag)
            if len(v) <= 255:
                raw = tlv(v) + unhx(sfx(rng))
                yield Case({"op": "rsv_is_reserved", "raw": hx(raw)}, exp, tag=tag)
                yield Case({"op": "rsv_to_reserved", "raw": hx(raw)}, exp, tag=tag)
                yield Case({"op": "rsv_get", "raw": hx(raw), "getter": rng.choice(GETTERS)}, exp, tag=tag)
                yield Case({"op": "rsv_view", "raw": hx(raw)}, exp, tag=tag)

        crafted = [b"", b"c", b"cf", b"cfd", b"cfdp", b"CFDP\x00", b"cfdP\x00", b"cfd\x00p", b"\x00cfdp\x00", b" cfdp\x00",
                   b"cfpd\x00", b"dpcf\x00", b"\xff\xfe\x00\x00\x00", b"\xff" * 5, b"\x80cfdp", b"cfd\xf0\x00\x00",
                   b"\xe2\x82\xac\xac\x00", b"\x00" * 5, b"cfd", b"hello world", "cfdⓟ\x00".encode(), b"cfd\xc3\xb0\x00"]
        for v in crafted:
            yield from both(v, "valid", "not-reserved-crafted")
        good = MARKER + bytes([rng.randrange(256)]) + rbytes(rng, 6)
        for i in range(4):
            for x in range(256):
                if x == MARKER[i]:
                    continue
                v = bytearray(good)
                v[i] = x
                yield Case({"op": "rsv_is_reserved_value", "value": hx(bytes(v))}, "valid", tag="not-reserved-subst-all-256")
                yield Case({"op": "rsv_view", "raw": hx(tlv(bytes(v)))}, "valid", tag="not-reserved-subst-all-256")
        for n in range(0, 5):
            for _ in range(20 * R):
                v = (MARKER + b"\x00")[:n] if rng.random() < 0.4 else rbytes(rng, n)
                yield from both(v, "valid", "not-reserved-short")
        for _ in range(300 * R):
            n = rng.choice([5, 6, 7, 10, 40, 255])
            v = rbytes(rng, n)
            if v[:4] == MARKER:
                continue
            if rng.random() < 0.5:   # near misses: three of the four octets right
                i = rng.randrange(4)
                v = bytes(MARKER[j] if j != i else (v[j] if v[j] != MARKER[j] else 0) for j in range(4)) + v[4:]
            yield from both(v, "valid", "not-reserved-random")
        # and it answers True exactly for 'cfdp' + at least one more octet
        for n in (5, 6, 100, 255):
            v = MARKER + rbytes(rng, n - 4)
            yield Case({"op": "rsv_is_reserved_value", "value": hx(v)}, "valid", tag="reserved")
            yield Case({"op": "rsv_is_reserved", "raw": hx(tlv(v))}, "valid", tag="reserved")
        yield Case({"op": "rsv_is_reserved_value", "value": hx(MARKER + rbytes(rng, 252))}, "invalid", tag="value-too-long")
        # other TLV types are not messages to user
        for t in (0, 1, 4, 5, 6):
            yield Case({"op": "rsv_is_reserved", "raw": hx(tlv(MARKER + b"\x00", t))}, "invalid", errclass=True,
                       tag="foreign-tlv-type")
        for t in (3, 7, 255):
            yield Case({"op": "rsv_is_reserved", "raw": hx(tlv(MARKER + b"\x00", t))}, "invalid", tag="no-tlv-type")

    # -- all 256 message types: conversion + classification + every getter ----------------------------------------------
    def gen_classification(self, rng, R):
        for t in range(256):
            for tail in (b"", b"\x00", rbytes(rng, rng.randint(1, 12))):
                v = MARKER + bytes([t]) + tail
                yield Case({"op": "rsv_to_reserved", "raw": hx(tlv(v) + unhx(sfx(rng)))}, "valid", tag="all-256-types")
            # a tail every getter can digest: width octet 0x00 / flag octet, then LVs
            tail = bytes([rng.choice([0, 0x11, 0x80, 0x01])]) + b"\x01\x07" + lv(name(rng, 3)) + lv(name(rng, 2))
            v = MARKER + bytes([t]) + tail
            for g in GETTERS:
                yield Case({"op": "rsv_get", "raw": hx(tlv(v)), "getter": g}, "any", tag="all-256-types-x-getter")
            if t not in OWN:
                yield Case({"op": "rsv_view", "raw": hx(tlv(v))}, "valid", tag="no-parameters-for-this-type")

    # -- all 256 values of every parameter octet -------------------------------------------------------------------------
    def gen_octet_sweeps(self, rng, R):
        for b in range(256):
            o = bytes([b])
            yield Case({"op": "rsv_get", "raw": hx(tlv(MARKER + b"\x0b" + o)), "getter": "closure"}, "valid", tag="octet-sweep")
            yield Case({"op": "rsv_get", "raw": hx(tlv(MARKER + b"\x04" + o + rbytes(rng, 2))), "getter": "tx_mode"}, "valid",
                       tag="octet-sweep")
            yield Case({"op": "rsv_get", "raw": hx(tlv(MARKER + b"\x15" + o)), "getter": "dir_opts"}, "valid", tag="octet-sweep")
            yield Case({"op": "rsv_get", "raw": hx(tlv(MARKER + b"\x11" + o + lv(b"/tmp") + lv(b"x"))), "getter": "dir_resp"},
                       "valid", tag="octet-sweep")
            yield Case({"op": "rsv_get", "raw": hx(tlv(MARKER + b"\x07" + o)), "getter": "put_resp"},
                       "valid" if (b >> 4) in CC_MEMBERS else "invalid", tag="octet-sweep")
            # originating ID: width octet b with exactly the octets it announces, one less, one more, far too few
            sl, ql = ((b >> 4) & 7) + 1, (b & 7) + 1
            body = rbytes(rng, sl + ql)
            ok = sl in W and ql in W
            yield Case({"op": "rsv_get", "raw": hx(tlv(MARKER + b"\x0a" + o + body)), "getter": "orig_id"},
                       "valid" if ok else "invalid", tag="orig-width-octet-sweep")
            yield Case({"op": "rsv_get", "raw": hx(tlv(MARKER + b"\x0a" + o + body + b"\x99")), "getter": "orig_id"},
                       "valid" if ok else "invalid", tag="orig-width-octet-sweep-longer")
            for cut in (1, 2, sl + ql):
                yield get_case(MARKER + b"\x0a" + o + body[: sl + ql - cut], "orig_id", "any", "orig-width-octet-sweep-short")
        # the six getters that need the parameter octet refuse a bare header with ValueError
        for t, g in ((0x0a, "orig_id"), (7, "put_resp"), (0x0b, "closure"), (4, "tx_mode"), (0x11, "dir_resp"),
                     (0x15, "dir_opts"), (0, "put_req"), (0x10, "dir_req")):
            yield Case({"op": "rsv_get", "raw": hx(tlv(MARKER + bytes([t]))), "getter": g}, "invalid", errclass=True,
                       tag="parameter-octet-missing")
            yield Case({"op": "rsv_view", "raw": hx(tlv(MARKER + bytes([t])))}, "invalid", errclass=True,
                       tag="parameter-octet-missing")
        yield Case({"op": "rsv_to_reserved", "raw": hx(tlv(MARKER + b"\xff"))}, "valid", tag="type-255")
        yield Case({"op": "rsv_view", "raw": hx(tlv(MARKER + b"\xff"))}, "valid", tag="type-255")

    # -- malformed stream: truncations, LV length substitutions, random tails ------------------------------------------------
    def gen_malformed(self, rng, R):
        samples = []
        for _ in range(3 * R):
            w = rng.choice(W)
            samples.append((v_put_req(w, rng.randrange(256 ** w), name(rng, rng.randint(0, 9)), name(rng, rng.randint(0, 9))), "put_req"))
            sw, qw = rng.choice(W), rng.choice(W)
            samples.append((v_orig(sw, rng.randrange(256 ** sw), qw, rng.randrange(256 ** qw)), "orig_id"))
            samples.append((v_dir_req(name(rng, rng.randint(0, 9)), name(rng, rng.randint(0, 9))), "dir_req"))
            samples.append((v_dir_resp(rng.random() < 0.5, name(rng, rng.randint(0, 9)), name(rng, rng.randint(0, 9))), "dir_resp"))
        samples += [(v_orig(8, 2 ** 64 - 1, 8, 1), "orig_id"), (v_orig(1, 1, 1, 2), "orig_id"),
                    (MARKER + b"\x07\x52", "put_resp"), (MARKER + b"\x0b\x01", "closure"), (MARKER + b"\x04\x01", "tx_mode"),
                    (MARKER + b"\x15\x03", "dir_opts"), (MARKER + b"\x09", "put_req")]
        for v, g in samples:
            raw = tlv(v)
            yield Case({"op": "rsv_get", "raw": hx(raw), "getter": g}, "valid", tag="sample")
            yield Case({"op": "rsv_view", "raw": hx(raw)}, "valid", tag="sample")
            for k in range(len(v)):
                # the value cut short inside a well-formed TLV
                yield get_case(v[:k], g, "any", "value-truncation")
                yield view_case(v[:k], "any", "value-truncation")
            for k in range(len(raw)):
                # the TLV itself cut short
                yield Case({"op": "rsv_get", "raw": hx(raw[:k]), "getter": g}, "invalid", tag="tlv-truncation")
            for x in (0, 1, len(v) - 1, len(v) + 1, 255):
                b = bytearray(raw)
                b[1] = x & 0xFF
                yield raw_view_case(bytes(b) + unhx(sfx(rng)), "any", "tlv-length-subst")
            for i in range(5, len(v)):
                for x in {0, 1, v[i] - 1, v[i] + 1, len(v) - i - 1, len(v) - i, len(v) - i - 2, 255, rng.randrange(256)}:
                    b = bytearray(v)
                    b[i] = x & 0xFF
                    yield get_case(bytes(b), g, "any", "octet-subst")
        # put request: the value ends right after the first / second LV -> None, never an error
        for w in W:
            ident = lv(be(w, rng.randrange(256 ** w)))
            s = lv(name(rng, rng.randint(0, 5)))
            for v in (MARKER + b"\x00" + ident, MARKER + b"\x00" + ident + s):
                yield Case({"op": "rsv_get", "raw": hx(tlv(v)), "getter": "put_req"}, "valid", tag="put-request-ends-early")
            # entity-ID LV of every length 0..9: only 1, 2, 4, 8 decode
            for n in range(10):
                v = MARKER + b"\x00" + lv(rbytes(rng, n)) + s + lv(b"d")
                yield Case({"op": "rsv_get", "raw": hx(tlv(v)), "getter": "put_req"}, "valid" if n in W else "invalid",
                           errclass=True, tag="put-request-id-length")
        # random tails after 'cfdp' + a type that has parameters
        for _ in range(400 * R):
            t = rng.choice(list(OWN))
            tail = rbytes(rng, rng.choice([0, 1, 2, 3, 5, 9, 17, 18, 30]))
            if rng.random() < 0.5 and len(tail) > 1:
                tail = bytes([rng.choice([0, 1, len(tail) - 2, len(tail) - 1, len(tail), 0x33, 0x77])]) + tail[1:]
            yield get_case(MARKER + bytes([t]) + tail, OWN[t], "any", "random-tail")
        for _ in range(200 * R):
            yield raw_view_case(rbytes(rng, rng.choice([0, 1, 2, 3, 7, 8, 20])), "any", "random-octets")
            raw = bytes([2, rng.randrange(12)]) + MARKER + rbytes(rng, rng.randrange(8))
            yield raw_view_case(raw, "any", "random-octets")

    # -- parameter records: *_as_str, from_strs -----------------------------------------------------------------------------
    def gen_records(self, rng, R):
        for kind in ("put", "dir"):
            for a in NAMES + BAD_UTF8:
                b = rng.choice(NAMES)
                good = lambda x: _is_utf8(x)
                yield Case({"op": "rsv_str", "kind": kind, "a": hx(a), "b": hx(b)},
                           "valid" if good(a) and good(b) else "invalid", errclass=True, tag="as-str")
                yield Case({"op": "rsv_str", "kind": kind, "a": hx(b), "b": hx(a)},
                           "valid" if good(a) and good(b) else "invalid", errclass=True, tag="as-str")
            for _ in range(30 * R):
                yield Case({"op": "rsv_str", "kind": kind, "a": hx(rand_utf8(rng, rng.randint(0, 40))),
                            "b": hx(rand_utf8(rng, rng.randint(0, 255)))}, "valid", tag="as-str-random")
        for n, m in [(0, 0), (255, 255), (1, 254), (256, 0), (0, 256), (300, 300)]:
            yield Case({"op": "rsv_dir_from_strs", "path": hx(rand_utf8(rng, n)), "name": hx(rand_utf8(rng, m))},
                       "valid" if n <= 255 and m <= 255 else "invalid", errclass=True, tag="from-strs")
        for _ in range(30 * R):
            yield Case({"op": "rsv_dir_from_strs", "path": hx(rand_utf8(rng, rng.randint(0, 60))),
                        "name": hx(rand_utf8(rng, rng.randint(0, 60)))}, "valid", tag="from-strs")


def _is_utf8(b: bytes) -> bool:
    try:
        b.decode()
        return True
    except UnicodeDecodeError:
        return False


PROP = C18()
