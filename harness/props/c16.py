"""C16 — the PUS verification tracker follows its state machine for every report history

One op line carries a whole history (`verif_run`). The real `PusVerificator` is driven with real
`PusTc` objects (`add_tc`) and real `Service1Tm` reports (`add_tm`) — built by the constructor with
`VerificationParams`, by the `create_*_tm` helpers, or decoded from the packed octets with
`Service1Tm.unpack` — and `RequestId` objects (`remove_entry`). After every call the return value and
the entire dictionary (sorted by `RequestId.as_u32()`) are compared with the Lean model, whose
behaviour is proved to be that of the documented state machine.

The key `tc_objects` of a line (not read by the model) says how the objects of the history are obtained: one
telecommand object reused for command after command (`_Reused`), or a new telecommand per registration made by
`PusTc.from_sp_header` from a new / an already used bare space packet header or by `PusTc.unpack`, with reports
and request ids that never saw a telecommand object - request ids decoded from the 32-bit value, reports decoded
from octets assembled by this module (`_Built`). The reference is always the model, keyed by the 32-bit values.
"""
import itertools
import random
import struct
from typing import Any, Dict, Iterator, List, Tuple

import core
from core import Case, Prop, SelfCheckFailure

from spacepackets.ccsds.spacepacket import PacketId, PacketSeqCtrl, PacketType, SequenceFlags, SpacePacketHeader
from spacepackets.crc import CRC16_CCITT_FUNC
from spacepackets.ecss.fields import PacketFieldEnum
from spacepackets.ecss.req_id import RequestId
from spacepackets.ecss.tc import PusTc
import spacepackets.ecss.pus_1_verification as s1
from spacepackets.ecss.pus_1_verification import (
    FailureNotice, Service1Tm, Subservice, UnpackParams, VerificationParams,
)
import spacepackets.ecss.pus_verificator as pv
from spacepackets.ecss.pus_verificator import PusVerificator, StatusField, TmCheckResult, VerificationStatus

TIMESTAMP = bytes([0x40, 0x5B, 0x0A, 0x01, 0x02, 0x03, 0x04])

# step kinds of the line protocol
ADD_TC, ADD_TM, REMOVE, REMOVE_COMPLETED = 0, 1, 2, 3
# how a report object is produced
MK_CTOR, MK_HELPER, MK_DECODED = 0, 1, 2


# --------------------------------------------------------------------------------------------
# building real objects from the six header fields (version, ptype, shf, apid, flags, count)
# --------------------------------------------------------------------------------------------
_tc_cache: Dict[Tuple, PusTc] = {}
_tm_cache: Dict[Tuple, Service1Tm] = {}


def _req(f) -> RequestId:
    v, t, s, apid, flags, count = f
    return RequestId(PacketId(PacketType(t), bool(s), apid), PacketSeqCtrl(SequenceFlags(flags), count), v)


def _tc(f) -> PusTc:
    """a real telecommand whose space packet header carries the given fields"""
    f = tuple(f)
    tc = _tc_cache.get(f)
    if tc is not None:
        return tc
    v, t, s, apid, flags, count = f
    tc = PusTc(service=17, subservice=1, apid=apid, seq_count=count, app_data=bytes([count & 0xFF]))
    if (v, t, s, flags) != (0, 1, 1, 3):
        if v == 0 and (apid + count) % 2 == 0:
            # through the documented setters of the header
            tc.sp_header.packet_type = PacketType(t)
            tc.sp_header.sec_header_flag = bool(s)
            tc.sp_header.seq_flags = SequenceFlags(flags)
        else:
            # through the decoder: a telecommand as received, with these header bits
            raw = bytearray(core.pack_stable(tc, "PusTc.pack()"))
            raw[0] = (v << 5) | (t << 4) | (s << 3) | (apid >> 8)
            raw[1] = apid & 0xFF
            raw[2] = (flags << 6) | (count >> 8)
            raw[3] = count & 0xFF
            raw[-2:] = struct.pack("!H", CRC16_CCITT_FUNC(bytes(raw[:-2])))
            tc = PusTc.unpack(bytes(raw))
    got = RequestId.from_pus_tc(tc)
    if int(got.as_u32()) != int(_req(f).as_u32()):
        raise SelfCheckFailure(f"request id of the telecommand built for header fields {f} is {got.as_u32():#x}")
    _tc_cache[f] = tc
    return tc


_HELPERS = {1: "create_acceptance_success_tm", 2: "create_acceptance_failure_tm", 3: "create_start_success_tm",
            4: "create_start_failure_tm", 5: "create_step_success_tm", 6: "create_step_failure_tm",
            7: "create_completion_success_tm", 8: "create_completion_failure_tm"}


def _tm(f, sub: int, stepval, mode: int, width: int) -> Service1Tm:
    """a real service-1 report for the request id with the given fields"""
    key = (tuple(f), sub, stepval, mode, width)
    tm = _tm_cache.get(key)
    if tm is not None:
        return tm
    step = PacketFieldEnum(8 * width, stepval) if sub in (5, 6) else None
    fail = FailureNotice(PacketFieldEnum(8, 3), bytes([0xAB])) if sub % 2 == 0 else None
    if mode == MK_HELPER and 1 <= sub <= 8:
        fn = getattr(s1, _HELPERS[sub])
        kw: Dict[str, Any] = {"apid": 0x55, "pus_tc": _tc(f), "timestamp": TIMESTAMP}
        if step is not None:
            kw["step_id"] = step
        if fail is not None:
            kw["failure_notice"] = fail
        tm = fn(**kw)
    else:
        tm = Service1Tm(apid=0x55, subservice=Subservice(sub) if 0 <= sub <= 8 else sub, timestamp=TIMESTAMP,
                        verif_params=VerificationParams(_req(f), step, fail), seq_count=sub)
        if mode == MK_DECODED and 1 <= sub <= 8:
            tm = Service1Tm.unpack(core.pack_stable(tm, "Service1Tm.pack()"),
                                   core.REUSE.get(["UnpackParams", len(TIMESTAMP), width, 1],
                                                  lambda: UnpackParams(len(TIMESTAMP), width, 1)))
    if len(_tm_cache) < 200000:
        _tm_cache[key] = tm
    return tm


# --------------------------------------------------------------------------------------------
# implementation op
# --------------------------------------------------------------------------------------------
def _status(st: VerificationStatus):
    return [bool(st.all_verifs_recvd), int(st.accepted), int(st.started), int(st.step), int(st.completed),
            [int(x) for x in st.step_list]]


def _snapshot(v: PusVerificator, n_calls: int):
    for s in v.verif_dict.values():
        # fail fast (a list that grows beyond the number of calls made on this instance would
        # otherwise be copied into every later snapshot of the run)
        if len(s.step_list) > n_calls:
            raise SelfCheckFailure(f"a step list holds {len(s.step_list)} values after {n_calls} calls on a new tracker")
    items = [(int(k.as_u32()), _status(s)) for k, s in v.verif_dict.items()]
    ks = [k for k, _ in items]
    if len(set(ks)) != len(ks):
        raise SelfCheckFailure(f"two dictionary entries have the same 32-bit request id: {sorted(ks)}")
    items.sort(key=lambda e: e[0])
    return [[k, s] for k, s in items]


def _tracker_view(v: PusVerificator):
    return sorted([int(k.as_u32()), _status(s)] for k, s in v.verif_dict.items())


# trackers are separate objects: what a later tracker is told must not change the records of an earlier one
# (the reports and telecommands handed to them ARE shared between the lines, see _tc_cache / _tm_cache)
_TRACKERS = core.Isolation(keep=1)


class _Shared:
    """objects for a history, default mode: a telecommand / report per distinct parameter set, shared by all lines of the
    process (never modified)"""
    prepared = False

    def tc(self, f):
        return _tc(f)

    def tm(self, f, sub, stepval, mode, width):
        return _tm(f, sub, stepval, mode, width)

    def rid(self, f):
        return _req(f)


class _Reused:
    """objects for a history, key "tc_objects" (not read by the model op): the application owns ONE PusTc object (one per
    version number - the version bits have no setter) and gives it the header fields of each command through the
    documented setters (tc.apid, tc.seq_count, the setters of tc.sp_header) before it registers it / builds reports for it
    / takes its request id. The abstract history is the one of the line; whatever was obtained for a command earlier
    (request id, report, dictionary key inside the tracker) is the value it was when it was obtained.
      "reused":      every report and request id of the history is obtained FIRST (command by command, the object being
                     changed in between), the calls on the tracker follow - reports built for a command before the object
                     moved on to the next one are credited to that command;
      "reused-lazy": reports / request ids are obtained at the step that uses them."""

    def __init__(self, a, lazy: bool):
        self.tcs: Dict[int, PusTc] = {}
        self.lazy = lazy
        self.tms: Dict[Tuple, Service1Tm] = {}
        self.rids: Dict[Tuple, RequestId] = {}
        self.n_tm = 0
        self.prepared = not lazy
        if not lazy:
            ids, steps = a["ids"], a["steps"][: a["n"]]
            for i, f in enumerate(ids):
                mine = [st for st in steps if st[0] in (ADD_TM, REMOVE) and st[1] == i]
                if not mine:
                    continue
                self.tc(f)
                self.rids[tuple(f)] = RequestId.from_pus_tc(self.tcs[f[0]])
                for st in mine:
                    if st[0] == ADD_TM:
                        key = (tuple(f), st[2], st[3], st[4] if len(st) > 4 else MK_CTOR, st[5] if len(st) > 5 else 1)
                        if key not in self.tms:
                            self.tms[key] = self._build(*key)

    def tc(self, f) -> PusTc:
        v, t, s, apid, flags, count = f
        tc = self.tcs.get(v)
        if tc is None:
            tc = PusTc(service=17, subservice=1, apid=apid, seq_count=count, app_data=bytes([v]))
            if v != 0:
                h = tc.sp_header
                tc.sp_header = SpacePacketHeader(packet_type=h.packet_type, apid=h.apid, seq_count=h.seq_count, data_len=h.data_len,
                                                 sec_header_flag=h.sec_header_flag, seq_flags=h.seq_flags, ccsds_version=v)
            self.tcs[v] = tc
        tc.apid = apid
        tc.seq_count = count
        h = tc.sp_header
        h.packet_type, h.sec_header_flag, h.seq_flags = PacketType(t), bool(s), SequenceFlags(flags)
        if bytes(h.pack())[:4] != int(_req(f).as_u32()).to_bytes(4, "big"):
            raise SelfCheckFailure(f"a telecommand object given the header fields {list(f)} through its setters has the header {bytes(h.pack()).hex()}")
        return tc

    def _build(self, f, sub, stepval, mode, width) -> Service1Tm:
        """like _tm, for the application's telecommand object as it is NOW (it carries f)"""
        tc = self.tcs[f[0]]
        step = PacketFieldEnum(8 * width, stepval) if sub in (5, 6) else None
        fail = FailureNotice(PacketFieldEnum(8, 3), bytes([0xAB])) if sub % 2 == 0 else None
        self.n_tm += 1
        if mode == MK_HELPER and 1 <= sub <= 8:
            kw: Dict[str, Any] = {"apid": 0x55, "pus_tc": tc, "timestamp": TIMESTAMP}
            if step is not None:
                kw["step_id"] = step
            if fail is not None:
                kw["failure_notice"] = fail
            return getattr(s1, _HELPERS[sub])(**kw)
        rid = RequestId.from_pus_tc(tc) if self.n_tm % 2 else RequestId.from_sp_header(tc.sp_header)
        tm = Service1Tm(apid=0x55, subservice=Subservice(sub) if 0 <= sub <= 8 else sub, timestamp=TIMESTAMP,
                        verif_params=VerificationParams(rid, step, fail), seq_count=sub)
        if mode == MK_DECODED and 1 <= sub <= 8:
            tm = Service1Tm.unpack(core.pack_stable(tm, "Service1Tm.pack()"),
                                   core.REUSE.get(["UnpackParams", len(TIMESTAMP), width, 1],
                                                  lambda: UnpackParams(len(TIMESTAMP), width, 1)))
        return tm

    def tm(self, f, sub, stepval, mode, width) -> Service1Tm:
        key = (tuple(f), sub, stepval, mode, width)
        if not self.lazy:
            return self.tms[key]
        self.tc(f)
        return self._build(*key)

    def rid(self, f) -> RequestId:
        if not self.lazy:
            return self.rids[tuple(f)]
        return RequestId.from_pus_tc(self.tc(f))

# --------------------------------------------------------------------------------------------
# octets by the harness itself (independent of every encoder of the package): a PUS C telecommand and a service-1 report
# --------------------------------------------------------------------------------------------
def _crc_table():
    t = []
    for i in range(256):
        reg = i << 8
        for _ in range(8):
            reg = ((reg << 1) ^ 0x1021) & 0xFFFF if reg & 0x8000 else (reg << 1) & 0xFFFF
        t.append(reg)
    return t


_CRC_TABLE = _crc_table()


def spec_crc16(data: bytes) -> int:
    """CRC-16/CCITT-FALSE"""
    reg = 0xFFFF
    for x in data:
        reg = ((reg << 8) & 0xFFFF) ^ _CRC_TABLE[(reg >> 8) ^ x]
    return reg


def spec_u32(f) -> int:
    """the 32-bit request id of a telecommand whose header carries the six fields: its first four octets"""
    v, t, s, apid, flags, count = f
    return (v << 29) | (t << 28) | (s << 27) | (apid << 16) | (flags << 14) | count


def spec_tc_octets(f, app_data: bytes) -> bytes:
    """a complete PUS C telecommand [17,1] whose primary header carries the six fields"""
    body = bytes([0x2F, 17, 1, 0, 0]) + app_data
    raw = spec_u32(f).to_bytes(4, "big") + (len(body) + 2 - 1).to_bytes(2, "big") + body
    return raw + spec_crc16(raw).to_bytes(2, "big")


def spec_report_octets(f, sub: int, stepval, width: int) -> bytes:
    """a complete service-1 report [1,sub] for the request id of the six fields, as it arrives from the wire: primary header
    (TM, secondary header, APID 0x55, unsegmented, count = sub), PUS C secondary header with the 7-octet time stamp, request id,
    step id (width octets, step reports), failure notice (1-octet code 3, one octet of data; failure reports), CRC"""
    src = spec_u32(f).to_bytes(4, "big")
    if sub in (5, 6):
        src += int(stepval).to_bytes(width, "big")
    if sub % 2 == 0:
        src += bytes([3, 0xAB])
    field = bytes([0x20, 1, sub, 0, 0, 0, 0]) + TIMESTAMP + src
    raw = ((1 << 11) | 0x55).to_bytes(2, "big") + ((3 << 14) | sub).to_bytes(2, "big") + (len(field) + 2 - 1).to_bytes(2, "big") + field
    return raw + spec_crc16(raw).to_bytes(2, "big")


def _rid_from_u32(f) -> RequestId:
    """the request id as a receiver gets it: decoded from its four octets"""
    return RequestId.unpack(spec_u32(f).to_bytes(4, "big") + b"\x00")


_probe_cache: Dict[Tuple, Any] = {}


def _free_probe(f):
    """(32-bit value, [(label, request id)]) with request ids that never saw a telecommand object (shared between the lines
    like the reports: nothing modifies them)"""
    p = _probe_cache.get(tuple(f))
    if p is None:
        p = (spec_u32(f), [("built from the fields", _req(f)), ("decoded from its four octets", _rid_from_u32(f))])
        if len(_probe_cache) < 100000:
            _probe_cache[tuple(f)] = p
    return p


BUILT_MODES = ("header", "header-packed", "header-compared", "header-reqid", "decoded")


class _Built:
    """objects for a history, key "tc_objects" (not read by the model op) one of BUILT_MODES: every registration comes with a
    NEW telecommand object made for the specified header fields
      "header":          PusTc.from_sp_header(sph, 17, 1, app_data) from a new SpacePacketHeader (a bare header: default secondary
                         header flag, packet type TM or TC - from_sp_header makes it the header of a PUS telecommand);
      "header-packed" / "header-compared" / "header-reqid":  the same, but the application has USED the bare header before:
                         packed it / compared it (and its packet id) with == / taken RequestId.from_sp_header(sph) of it;
      "decoded":         PusTc.unpack of octets assembled by the harness (a telecommand as received);
    header bits from_sp_header fixes (packet type, secondary header flag) are then given the specified values through the setters
    of the telecommand's header. Reports and request ids are made WITHOUT the telecommand objects: request ids decoded from the
    32-bit value (RequestId.unpack) or built from the fields, constructor reports around such a request id, "decoded" reports by
    Service1Tm.unpack of octets assembled by the harness; only the create_*_tm reports use the telecommand object that was
    registered for the command (or one made the same way). The reference stays the model, keyed by the 32-bit values."""
    prepared = False

    def __init__(self, how: str):
        self.how = how
        self.n = 0
        self.registered: Dict[Tuple, PusTc] = {}

    def _new_tc(self, f) -> PusTc:
        v, t, s, apid, flags, count = f
        self.n += 1
        app_data = bytes([count & 0xFF])
        if self.how == "decoded":
            return PusTc.unpack(spec_tc_octets(f, app_data))
        bare = PacketType((apid + count + self.n) % 2)
        sph = SpacePacketHeader(packet_type=bare, apid=apid, seq_count=count, data_len=0, seq_flags=SequenceFlags(flags), ccsds_version=v)
        if self.how == "header-packed":
            sph.pack()
        elif self.how == "header-compared":
            twin = SpacePacketHeader(packet_type=bare, apid=apid, seq_count=count, data_len=0, seq_flags=SequenceFlags(flags), ccsds_version=v)
            _ = (sph == twin, sph.packet_id == PacketId(bare, False, apid), sph.packet_seq_control == twin.packet_seq_control)
        elif self.how == "header-reqid":
            _ = int(RequestId.from_sp_header(sph).as_u32())
        tc = PusTc.from_sp_header(sph, 17, 1, app_data)
        if (t, s) != (1, 1):
            tc.sp_header.packet_type = PacketType(t)
            tc.sp_header.sec_header_flag = bool(s)
        return tc

    def tc(self, f) -> PusTc:
        tc = self._new_tc(f)
        self.registered.setdefault(tuple(f), tc)
        return tc

    def rid(self, f) -> RequestId:
        self.n += 1
        return _rid_from_u32(f) if self.n % 2 else _req(f)

    def tm(self, f, sub, stepval, mode, width) -> Service1Tm:
        if not 1 <= sub <= 8:
            return _tm(f, sub, stepval, mode, width)
        if mode == MK_DECODED:
            return Service1Tm.unpack(spec_report_octets(f, sub, stepval, width),
                                     core.REUSE.get(["UnpackParams", len(TIMESTAMP), width, 1], lambda: UnpackParams(len(TIMESTAMP), width, 1)))
        step = PacketFieldEnum(8 * width, stepval) if sub in (5, 6) else None
        fail = FailureNotice(PacketFieldEnum(8, 3), bytes([0xAB])) if sub % 2 == 0 else None
        if mode == MK_HELPER:
            tc = self.registered.get(tuple(f))
            if tc is None:
                tc = self._new_tc(f)
            kw: Dict[str, Any] = {"apid": 0x55, "pus_tc": tc, "timestamp": TIMESTAMP}
            if step is not None:
                kw["step_id"] = step
            if fail is not None:
                kw["failure_notice"] = fail
            return getattr(s1, _HELPERS[sub])(**kw)
        return Service1Tm(apid=0x55, subservice=Subservice(sub), timestamp=TIMESTAMP, verif_params=VerificationParams(self.rid(f), step, fail),
                          seq_count=sub)


def _lookups_by_value(v: PusVerificator, probes, which, snap, after: str, turn=None):
    """`request id in verif_dict` / `verif_dict.get(request id)` answer by the VALUE of the request id: for the ids `which`
    of the history a request id built from the fields (and the one the application took for that command earlier) is found
    exactly when the dictionary holds an entry with that 32-bit value, and the record found is that entry's.
    probes[i] = (32-bit value, [(label, request id), ...]); turn = k: only the first (k even) / second (k odd) and the further
    request ids of each entry are used (the independent ones take turns from call to call; all of them at the end)"""
    held = {k: st for k, st in snap}
    d = v.verif_dict
    for i in which:
        k, rs = probes[i]
        for label, r in (rs if turn is None else rs[turn % 2:turn % 2 + 1] + rs[2:]):
            found, rec = r in d, d.get(r)
            if found != (k in held) or (rec is None) == found or (rec is not None and _status(rec) != held[k]):
                saw = "finds nothing" if not found else ("finds the record " + str(None if rec is None else _status(rec)))
                raise SelfCheckFailure(f"after {after}: the dictionary {'holds' if k in held else 'does not hold'} an entry for request id "
                                       f"{k:#010x} ({held.get(k)}), but looking it up with a request id {label} {saw}")


def op_verif_run(a):
    ids = a["ids"]
    objs = a.get("tc_objects")
    if objs in BUILT_MODES:
        src = _Built(objs)
    else:
        src = _Reused(a, lazy=(objs == "reused-lazy")) if objs in ("reused", "reused-lazy") else _Shared()
    v = PusVerificator()
    outs: List[Any] = []
    dicts: List[Any] = []
    probes, recent = [], []
    if objs:
        for f in ids:
            rs = [("built from the fields", _req(f)), ("decoded from its four octets", _rid_from_u32(f))]
            if src.prepared and tuple(f) in src.rids:
                rs.append(("taken from the telecommand object when it carried that command", src.rids[tuple(f)]))
            probes.append((spec_u32(f), rs))
    steps = a["steps"][: a["n"]]
    for st in steps:
        kind = st[0]
        if kind == ADD_TC:
            out = bool(v.add_tc(src.tc(ids[st[1]])))
            if objs and out and _req(ids[st[1]]) not in v.verif_dict:
                raise SelfCheckFailure(f"call #{len(outs)} of the history (telecommand objects: {objs}): add_tc accepted a telecommand whose "
                                       f"header carries the fields {ids[st[1]]} (request id {spec_u32(ids[st[1]]):#010x}); the dictionary then "
                                       f"holds {[hex(int(k.as_u32())) for k in v.verif_dict]} and nothing under that request id")
        elif kind == ADD_TM:
            f, sub, stepval = ids[st[1]], st[2], st[3]
            mode = st[4] if len(st) > 4 else MK_CTOR
            width = st[5] if len(st) > 5 else 1
            tm = src.tm(f, sub, stepval, mode, width)
            if 1 <= sub <= 8:
                res = v.add_tm(tm)
            else:
                # outside the property's domain: "no result" for an unknown id and ValueError are
                # both a refusal
                known = _req(f) in v.verif_dict
                try:
                    res = v.add_tm(tm)
                    if res is None and not known:
                        res = "refused"
                except ValueError:
                    res = "refused"
            if res is None or isinstance(res, str):
                out = res
            else:
                out = {"completed": bool(res.completed), "status": _status(res.status)}
                stored = v.verif_dict.get(_req(f))
                if stored is None or _status(stored) != out["status"]:
                    raise SelfCheckFailure(f"call #{len(outs)} of the history: add_tm returned the status {out['status']} for a report on request id "
                                           f"{spec_u32(f):#010x}; the record stored under that request id is "
                                           f"{None if stored is None else _status(stored)} (dictionary keys: "
                                           f"{[hex(int(k.as_u32())) for k in v.verif_dict]})")
        elif kind == REMOVE:
            out = bool(v.remove_entry(src.rid(ids[st[1]])))
        elif kind == REMOVE_COMPLETED:
            out = v.remove_completed_entries()
            if out is not None:
                out = repr(type(out))
        else:
            raise AssertionError(st)
        outs.append(out)
        dicts.append(_snapshot(v, len(outs)))
        if objs:
            # (all ids of a small table and at the end of the history, otherwise those of the last few calls)
            if len(st) > 1:
                recent = [st[1]] + [i for i in recent if i != st[1]][:3]
            which = range(len(ids)) if len(ids) <= 4 or len(outs) == len(steps) else recent
            _lookups_by_value(v, probes, which, dicts[-1], f"call #{len(outs) - 1} of the history (telecommand objects: {objs})",
                              None if len(outs) == len(steps) else len(outs))
    if not objs and dicts and (len(steps) + sum(len(st) for st in steps[-2:])) % 4 == 0:
        # (default mode: once, at the end of every fourth history) the entries are found by request ids that never saw a
        # telecommand object
        _lookups_by_value(v, [_free_probe(f) for f in ids[:6]], range(min(len(ids), 6)), dicts[-1], "the last call of the history")
    _TRACKERS.check("C16.tracker", v, _tracker_view)
    return {"outs": outs, "dicts": dicts}


# ---- key "fac" (not read by the model op): {"name": <factory of props/c11.py FACTORIES>, "p": <its values>} - the factory is
#      called several times, one result is modified through its public setters / attributes, the other results and a later
#      call must show what they showed (core.factory_independent); the verif_key line is the carrier ----
C16_FACTORIES = (["RequestId.empty()", "RequestId.from_sp_header(header)", "RequestId.from_pus_tc(tc)",
                  "Service1Tm(apid, subservice, timestamp)", "PacketFieldEnum.with_byte_size(n, value)", "PusTc.empty()"]
                 + [f"{n}(apid, tc, ...)" for n in _HELPERS.values()])


def op_verif_key(a):
    fac = a.get("fac")
    if fac:
        import props.c11 as c11       # the table of factory probes lives with the mutation property
        c11.op_factory({"factory": fac["name"], "p": fac["p"]})
    f = a["id"]
    r = _req(f)
    k = int(r.as_u32())
    r2 = _req(f)
    if not (r == r2) or hash(r) != hash(r2) or {r2: 1}.get(r) != 1:
        raise SelfCheckFailure("two request ids built from the same fields are not interchangeable as dictionary keys")
    if a.get("tc"):
        k2 = int(RequestId.from_sp_header(_tc(f).sp_header).as_u32())
        if k2 != k:
            raise SelfCheckFailure("request id of the telecommand differs from the request id built from the same fields")
    return {"key": k}


OPS = {"verif_run": op_verif_run, "verif_key": op_verif_key}


# --------------------------------------------------------------------------------------------
# generators
# --------------------------------------------------------------------------------------------
TC_A = [0, 1, 1, 0x01, 3, 0]
TC_B = [0, 1, 1, 0x01, 3, 1]          # same APID, next sequence count
TC_C = [0, 1, 1, 0x7FF, 3, 0x3FFF]


def tm_step(i, sub, val=None, mode=MK_CTOR, width=1):
    return [ADD_TM, i, sub, val if sub in (5, 6) else None, mode, width]


def run_case(ids, steps, tag, tc_objects=None) -> Case:
    op = {"op": "verif_run", "n": len(steps), "ids": ids, "steps": steps}
    if tc_objects:
        # (not read by the model op) the history is realised with ONE telecommand object that is given the header fields
        # of each command through its setters, see _Reused - or with telecommands made from space packet headers / decoded,
        # and reports / request ids that never saw a telecommand object, see _Built
        op["tc_objects"] = tc_objects
        tag += "+tc-" + tc_objects
    return Case(op, "valid", tag=tag)


# every REUSE_EVERY-th history of the exhaustive sets is run a second time with one reused telecommand object, every
# BUILT_EVERY-th with telecommands made from (used) space packet headers / decoded (BUILT_MODES in turn)
REUSE_EVERY = 11
BUILT_EVERY = 19


def alphabet(n_ids: int, step_vals=(0, 1)) -> List[List[int]]:
    """every call on n_ids telecommands: register, the eight reports (step reports with each step value), remove; + remove completed"""
    out = []
    for i in range(n_ids):
        out.append([ADD_TC, i])
        for sub in (1, 2, 3, 4, 7, 8):
            out.append(tm_step(i, sub))
        for sub in (5, 6):
            for val in step_vals:
                out.append(tm_step(i, sub, val))
        out.append([REMOVE, i])
    out.append([REMOVE_COMPLETED])
    return out


def near_misses(f, rng) -> List[List[int]]:
    """request ids that differ from f in exactly one field"""
    v, t, s, apid, flags, count = f
    return [[(v + rng.randint(1, 7)) % 8, t, s, apid, flags, count], [v, 1 - t, s, apid, flags, count], [v, t, 1 - s, apid, flags, count],
            [v, t, s, apid ^ (1 << rng.randint(0, 10)), flags, count], [v, t, s, apid, (flags + rng.randint(1, 3)) % 4, count],
            [v, t, s, apid, flags, count ^ (1 << rng.randint(0, 13))]]


def rand_tc_fields(rng: random.Random, exotic: float) -> List[int]:
    apid = rng.choice([0, 1, 2, 0x7FE, 0x7FF, rng.randint(0, 2047), rng.randint(0, 2047)])
    count = rng.choice([0, 1, 0x3FFE, 0x3FFF, rng.randint(0, 16383), rng.randint(0, 16383)])
    if rng.random() < exotic:
        return [rng.randint(0, 7), rng.randint(0, 1), rng.randint(0, 1), apid, rng.randint(0, 3), count]
    return [0, 1, 1, apid, 3, count]


def step_value(rng: random.Random, width: int) -> int:
    top = (1 << (8 * width)) - 1
    return rng.choice([0, 1, 2, top - 1, top, rng.randint(0, top), rng.randint(0, min(top, 300))])


def random_history(rng: random.Random, n_tc: int, length: int, exotic: float, bad_sub: float, scripted: float):
    tcs = []
    while len(tcs) < n_tc:
        f = rand_tc_fields(rng, exotic)
        if f not in tcs:
            tcs.append(f)
    ids = [list(f) for f in tcs]
    for f in tcs[: 2]:
        for g in near_misses(f, rng):
            if g not in ids:
                ids.append(g)
    n_ids = len(ids)
    steps: List[List[Any]] = []
    # most of the registrations early, so that reports hit known ids
    for i in range(n_tc):
        if rng.random() < 0.7:
            steps.append([ADD_TC, i])
    while len(steps) < length:
        x = rng.random()
        # index: mostly a registered telecommand, sometimes a near miss
        i = rng.randrange(n_tc) if rng.random() < 0.85 else rng.randrange(n_ids)
        if x < 0.08:
            steps.append([ADD_TC, i])
        elif x < 0.14:
            steps.append([REMOVE, i])
        elif x < 0.19:
            steps.append([REMOVE_COMPLETED])
        elif x < 0.19 + bad_sub:
            steps.append([ADD_TM, i, rng.choice([0, 9, 10, 11, 128, 254, 255]), None, MK_CTOR, 1])
        elif x < 0.19 + bad_sub + scripted:
            # a (partial) nominal or failing chain for one telecommand, in order
            chain = rng.choice([[1, 3, 5, 5, 7], [1, 3, 7], [1, 3, 5, 6], [1, 4], [2], [1, 3, 5, 8], [1, 3, 8], [3, 1, 7], [1, 7, 3]])
            for sub in chain[: rng.randint(1, len(chain))]:
                w = rng.choice([1, 2, 4, 8])
                steps.append(tm_step(i, sub, step_value(rng, w), rng.choice([MK_CTOR, MK_HELPER, MK_DECODED]), w))
        else:
            sub = rng.randint(1, 8)
            w = rng.choice([1, 1, 2, 4, 8])
            steps.append(tm_step(i, sub, step_value(rng, w), rng.choice([MK_CTOR, MK_HELPER, MK_DECODED]), w))
    return ids, steps[: length]


class C16(Prop):
    id = "C16"
    title = "The PUS verification tracker follows its state machine for every report history"
    lean_modules = ["SpVerif.Props.C16"]
    exhaustive_note = ("quick: every sequence of 5 reports (8 subservices, 8^5 = 32768 sequences, all prefixes included) after "
                       "registering one telecommand; every history of length 3 over 2 telecommands x {register, 6 reports, 2 step "
                       "reports x 2 step values, remove} + remove-completed (25^3 = 15625) from the empty tracker and after both "
                       "are registered; every history of length 2 (625) after each of 12 random prefixes. thorough: 8^6 report "
                       "sequences, every history of length 4 over the 25-call alphabet (390625), length 3 after 12 random prefixes. "
                       "After every call the return value and the whole dictionary are compared.")
    trusted_base = [
        "CPython dict semantics (insertion order, in-place update, del, comprehension) and dataclass field mutation: modelled as an "
        "association list keyed by RequestId.as_u32(), tied by the correspondence runs, not verified",
    ]
    assumptions = [
        "request ids are compared and hashed through as_u32() (RequestId.__eq__/__hash__): the dictionary is keyed by that number",
        "reports are Service1Tm objects built with verification parameters, by the create_*_tm helpers or by Service1Tm.unpack "
        "(so a step report always carries a step id); a Service1Tm without verification parameters and subservice 5/6 raises "
        "AttributeError in add_tm: modelled (Out.raised attr), outside the property's domain, not exercised",
        "subservices outside 1..8 are outside the domain: compared only as 'refused' (no result for an unknown id or ValueError)",
        "one tracker instance, no concurrent access; callers do not modify the records handed out through verif_dict / TmCheckResult",
    ]

    def impl_ops(self):
        return OPS

    def table_sync(self):
        d = []
        got = {m.name: int(m) for m in StatusField}
        if got != {"UNSET": -1, "FAILURE": 0, "SUCCESS": 1}:
            d.append(f"StatusField members {got}")
        exp = {"INVALID": 0, "TM_ACCEPTANCE_SUCCESS": 1, "TM_ACCEPTANCE_FAILURE": 2, "TM_START_SUCCESS": 3,
               "TM_START_FAILURE": 4, "TM_STEP_SUCCESS": 5, "TM_STEP_FAILURE": 6, "TM_COMPLETION_SUCCESS": 7,
               "TM_COMPLETION_FAILURE": 8}
        got = {m.name: int(m) for m in Subservice}
        if got != exp:
            d.append(f"Subservice members {got}")
        if _status(VerificationStatus()) != [False, -1, -1, -1, -1, []]:
            d.append(f"VerificationStatus() defaults {_status(VerificationStatus())}")
        if len(PusVerificator().verif_dict) != 0:
            d.append("a new PusVerificator is not empty")
        return d

    def nontrivial(self, c: Case) -> bool:
        o = c.op
        if o["op"] == "verif_run":
            return any(s[0] == ADD_TM for s in o["steps"][: o["n"]])
        return True

    def neighbours(self, c: Case, rng: random.Random) -> Iterator[Case]:
        o = c.op
        if o["op"] == "verif_run":
            for n in range(1, o["n"]):
                yield Case({**o, "n": n}, "valid", tag="prefix")

    def cases(self, rng: random.Random, tier: str) -> Iterator[Case]:
        thorough = tier == "thorough"
        # --- key of real telecommands / request ids -------------------------------------------
        for f in [TC_A, TC_B, TC_C, [7, 0, 0, 0, 0, 0], [0, 0, 0, 0, 0, 0], [7, 1, 1, 0x7FF, 3, 0x3FFF]]:
            yield Case({"op": "verif_key", "id": f, "tc": True}, "valid", tag="key")
        for _ in range(2000 if thorough else 300):
            yield Case({"op": "verif_key", "id": rand_tc_fields(rng, 0.6), "tc": rng.random() < 0.5}, "valid", tag="key")

        # --- scripted chains (the ones the test-suite walks, and the ones it does not) --------
        for chain in ([1, 3, 5, 7], [2], [1, 4], [1, 3, 6], [1, 3, 8], [1, 3, 5, 6, 5, 7], [4, 1], [7, 1, 3], [6, 5, 1, 3, 5],
                      [8, 3, 1], [1, 3, 7, 2], [3, 4, 1, 8], [1, 1, 2, 2, 1]):
            for mode in (MK_CTOR, MK_HELPER, MK_DECODED):
                steps = [[ADD_TC, 0], [ADD_TC, 1], [ADD_TC, 0]]
                for k, sub in enumerate(chain):
                    steps.append(tm_step(0, sub, 10 + k, mode, rng.choice([1, 2, 4, 8])))
                    steps.append(tm_step(1, chain[-1 - k], 20 + k, mode, 1))
                steps += [[REMOVE_COMPLETED], [REMOVE, 0], [REMOVE, 0], [REMOVE, 1], [ADD_TC, 0], tm_step(0, 5, 1, mode, 1)]
                yield run_case([TC_A, TC_B], steps, "scripted")
                for objs in ("reused", "reused-lazy") + BUILT_MODES:
                    yield run_case([TC_A, TC_B], steps, "scripted", objs)
        # one telecommand object, used for command after command (sequence count / APID / flag bits moving on): register,
        # build its reports, move on, register again; the reports of the earlier commands arrive afterwards
        for rep in range(40 if thorough else 12):
            base = rand_tc_fields(rng, 0.3 if rep % 3 else 0.0)
            ids = [base]
            for _ in range(rng.randint(1, 4)):
                f = list(ids[-1])
                what = rng.choice(["count", "count", "count", "apid", "both", "flags"])
                if what in ("count", "both"):
                    f[5] = (f[5] + rng.choice([1, 1, 1, 2, 0x2000])) % 16384
                if what in ("apid", "both"):
                    f[3] ^= rng.choice([1, 0x400])
                if what == "flags":
                    f[rng.choice([1, 2, 4])] ^= 1
                if f not in ids:
                    ids.append(f)
            steps: List[List[Any]] = []
            for i in range(len(ids)):
                steps.append([ADD_TC, i])
                if rng.random() < 0.5:
                    steps.append(tm_step(i, 1, None, rng.choice([MK_CTOR, MK_HELPER, MK_DECODED])))
            steps.append([ADD_TC, 0])
            for sub in (1, 3, 5, 7):
                order = list(range(len(ids)))
                rng.shuffle(order)
                for i in order:
                    steps.append(tm_step(i, sub, 1 + i, rng.choice([MK_CTOR, MK_HELPER, MK_HELPER, MK_DECODED]), rng.choice([1, 2])))
            steps += [[REMOVE, 0], [ADD_TC, len(ids) - 1], [REMOVE_COMPLETED], [ADD_TC, 0], tm_step(0, 2, None, MK_HELPER)]
            for objs in (None, "reused", "reused-lazy") + BUILT_MODES:
                yield run_case(ids, steps, "object-reuse", objs)

        # --- exhaustive: all report sequences for one telecommand ---------------------------------
        depth = 6 if thorough else 5
        for seq in itertools.product(range(1, 9), repeat=depth):
            steps = [[ADD_TC, 0]] + [tm_step(0, sub, 3 + k) for k, sub in enumerate(seq)]
            yield run_case([TC_A], steps, f"all-report-sequences-{depth}")

        # --- exhaustive: all short histories over two telecommands --------------------------------
        alpha = alphabet(2)
        depth2 = 4 if thorough else 3
        n_h = 0
        for hist in itertools.product(alpha, repeat=depth2):
            yield run_case([TC_A, TC_B], list(hist), f"all-histories-{depth2}")
            n_h += 1
            if n_h % REUSE_EVERY == 0:
                yield run_case([TC_A, TC_B], list(hist), f"all-histories-{depth2}", ("reused", "reused-lazy")[(n_h // REUSE_EVERY) % 2])
            if n_h % BUILT_EVERY == 0:
                yield run_case([TC_A, TC_B], list(hist), f"all-histories-{depth2}", BUILT_MODES[(n_h // BUILT_EVERY) % len(BUILT_MODES)])
        if not thorough:
            for hist in itertools.product(alpha, repeat=3):
                yield run_case([TC_A, TC_B], [[ADD_TC, 0], [ADD_TC, 1]] + list(hist), "all-histories-3-after-registration")
                n_h += 1
                if n_h % REUSE_EVERY == 0:
                    yield run_case([TC_A, TC_B], [[ADD_TC, 0], [ADD_TC, 1]] + list(hist), "all-histories-3-after-registration",
                                   ("reused", "reused-lazy")[(n_h // REUSE_EVERY) % 2])
                if n_h % BUILT_EVERY == 0:
                    yield run_case([TC_A, TC_B], [[ADD_TC, 0], [ADD_TC, 1]] + list(hist), "all-histories-3-after-registration",
                                   BUILT_MODES[(n_h // BUILT_EVERY) % len(BUILT_MODES)])
        # after random prefixes (deeper states: partially verified, finished, removed and re-registered)
        depth3 = 3 if thorough else 2
        for _ in range(12):
            ids, prefix = random_history(rng, 2, rng.randint(3, 9), 0.0, 0.0, 0.3)
            ids = ids[:2]
            prefix = [s for s in prefix if len(s) < 2 or s[1] < 2]
            for hist in itertools.product(alpha, repeat=depth3):
                yield run_case(ids, prefix + list(hist), f"all-histories-{depth3}-after-random-prefix")

        # --- long random histories ------------------------------------------------------------
        for _ in range(8000 if thorough else 1500):
            n_tc = rng.choice([1, 2, 3, 3, 4])
            length = rng.choice([30, 30, 60, 200]) if thorough else rng.choice([10, 30, 30, 45])
            ids, steps = random_history(rng, n_tc, length, rng.choice([0.0, 0.3, 1.0]), 0.03, 0.15)
            yield run_case(ids, steps, "random-long")
            n_h += 1
            if n_h % 6 == 0:
                yield run_case(ids, steps, "random-long", ("reused", "reused-lazy")[(n_h // 6) % 2])
            if n_h % 5 == 0:
                yield run_case(ids, steps, "random-long", BUILT_MODES[(n_h // 5) % len(BUILT_MODES)])
        # many telecommands, few reports each (dictionary behaviour)
        for _ in range(300 if thorough else 40):
            n_tc = rng.randint(8, 40)
            ids, steps = random_history(rng, n_tc, 3 * n_tc, 0.5, 0.02, 0.3)
            yield run_case(ids, steps, "random-many-tcs")
            n_h += 1
            if n_h % 2 == 0:
                yield run_case(ids, steps, "random-many-tcs", ("reused", "reused-lazy")[(n_h // 2) % 2])
            else:
                yield run_case(ids, steps, "random-many-tcs", BUILT_MODES[(n_h // 2) % len(BUILT_MODES)])
        # --- request ids / reports that come from the library's factories are objects of their own (key "fac") ---
        import props.c11 as c11
        for _ in range(20 if thorough else 3):
            for name in C16_FACTORIES:
                yield Case({"op": "verif_key", "id": rand_tc_fields(rng, 0.6), "tc": False,
                            "fac": {"name": name, "p": c11.factory_params(rng)}}, "valid", tag="factory-independence")


PROP = C16()
