"""C13 — Space-packet stream parser reassembles losslessly under any fragmentation

One op line carries a whole history on a new deque:

* ``sp_parse_cuts``: a stream (hex), a bit mask of cut positions (bit k = a chunk ends behind octet k)
  and a bit mask of parser-call points (bit i = call behind chunk i; a call always follows the last chunk);
* ``sp_parse_run``: an explicit schedule, ``"<hex>"`` = ``deque.append(chunk)``, ``null`` = parser call
  (empty chunks, calls on an empty deque, repeated calls, appends after the last call);
* ``sp_parse_buf``: one buffer, one call.

Compared per call (keys ``packets``, ``rest_cmp``, ``final_cmp``): the returned packets exactly; the
concatenation of the deque's chunks (not their number) exactly as long as the octets fed so far contain
no junk, and in canonical form otherwise (leading positions at which both octets are known and no
registered ID can be read are stripped, see ``Parser.canonRest`` / theorem ``C13_early_discard``), so
that an implementation that discards junk earlier than the model is not reported. The choice is made
inside the op from the octets themselves. ``rest``, ``rest_canon``, ``queue``, ``final`` are reported by
both sides for the evidence only.

An op line may carry ``"prior": [<ids>, …]``: parser configurations (lists of ID triples) the same process has used
before, each on a short stream with gaps, parsed by the implementation op before the line's own history is run. The
model ignores the field — it has no state outside the deque, which is what the property says of the parser; the
field makes a failing case self-contained (it replays in a new process) when the real code remembers something
from one configuration to the next. The generator also interleaves such configurations in the case order.

An op line may carry ``"pid_objects": <mode>`` (see ``PID_MODES``): how the application obtained the ``PacketId`` objects it
registers (from_raw, built with other values and changed through the attributes after raw() was read, taken out of a header
that was packed and then changed through its setters, taken from a telecommand made of a used header). The model registers the
13-bit values of the triples; the field is ignored there.

Every octet string has exactly one decomposition junk/packet/…/tail (theorems ``C13_every_stream``,
``C13_stream_junk_tail``), so every generated stream is an input inside the property's domain
(``expect="valid"``); ``spec_scan`` is that decomposition evaluated by the harness, and every op
checks the real code against it on its own (lossless oracle) before the result is compared with the model.
"""
import random
import zlib
from collections import deque
from typing import Any, Dict, Iterator, List, Optional, Sequence, Tuple

import core
from core import Case, Prop, SelfCheckFailure
from gen import hx, unhx, rbytes

import spacepackets.ccsds.spacepacket as sp
from spacepackets.ccsds.spacepacket import PacketId, PacketType, parse_space_packets

Triple = Tuple[int, int, int]


# --------------------------------------------------------------------------------------------
# harness-side arithmetic (independent of the package)
# --------------------------------------------------------------------------------------------
def raw_id(t: Sequence[int]) -> int:
    return (t[0] << 12) | (t[1] << 11) | t[2]


def pid_at(b: bytes, i: int) -> int:
    return ((b[i] << 8) | b[i + 1]) & 0x1FFF


def canon(ids_raw: Sequence[int], r: bytes) -> bytes:
    i = 0
    while len(r) - i >= 2 and pid_at(r, i) not in ids_raw:
        i += 1
    return r[i:]


def is_junk(ids_raw: Sequence[int], j: bytes, nxt: bytes) -> bool:
    """no position of j whose successor octet is known carries a registered ID (Props.C13.Junk)"""
    b = j + nxt[:1]
    return all(pid_at(b, i) not in ids_raw for i in range(len(j)) if i + 1 < len(b))


def spec_scan(ids_raw: Sequence[int], data: bytes) -> Tuple[List[bytes], bytes, int]:
    """the decomposition the statement prescribes (Props.C13.stream / C13_stream_junk_tail), by the harness:
    junk positions carry no registered ID, a registered ID starts a packet of `length field + 7` octets,
    what cannot be decided yet is the tail. Returns (packets, residual, number of junk octets skipped or
    still undecided in front of the tail)."""
    i, n, out, junk = 0, len(data), [], 0
    while n - i > 6:
        if pid_at(data, i) in ids_raw:
            total = ((data[i + 4] << 8) | data[i + 5]) + 7
            if i + total > n:
                return out, data[i:], junk
            out.append(data[i:i + total])
            i += total
        else:
            junk += 1
            i += 1
    r = data[i:]
    return out, r, junk + (len(r) - len(canon(ids_raw, r)))


def cut_chunks(stream: bytes, cuts: int) -> List[bytes]:
    out, start = [], 0
    for k in range(len(stream) - 1):
        if (cuts >> k) & 1:
            out.append(stream[start:k + 1])
            start = k + 1
    out.append(stream[start:])
    return out


def cut_schedule(chunks: List[bytes], parses: int) -> List[Optional[bytes]]:
    steps: List[Optional[bytes]] = []
    for i, c in enumerate(chunks):
        steps.append(c)
        if i == len(chunks) - 1 or (parses >> i) & 1:
            steps.append(None)
    return steps


# --------------------------------------------------------------------------------------------
# implementation ops (public API only)
# --------------------------------------------------------------------------------------------
def _mk_pids(ids) -> List[PacketId]:
    return [PacketId(PacketType(t[0]), bool(t[1]), t[2]) for t in ids]


def _pid_view(p) -> Tuple[int, int, int, int]:
    return (int(p.ptype), int(bool(p.sec_header_flag)), int(p.apid), int(p.raw()))


# key "pid_objects" of a line (not read by the model, which registers the 13-bit values): HOW the application obtained the
# PacketId objects it registers. The parser matches by PacketId.raw(), so an ID object is whatever its fields say at the time
# of the call, however it got there:
#   "from_raw"      PacketId.from_raw(13-bit value)
#   "mutated"       a PacketId built with other values, looked at (raw(), ==), then given the values through its attributes
#   "header"        the packet_id of a SpacePacketHeader built with other values and packed, then given the values through
#                   the header's setters (packet_type / sec_header_flag / apid)
#   "tc-header"     the packet_id of a PusTc made by PusTc.from_sp_header from a bare header (no secondary header flag) that
#                   had been packed before (IDs of packet type TC with secondary header; others as "header")
# which of the three fields differ at first is a function of the triple and its position in the list. A PacketId class that
# does not take assignments (a value object) is built by its constructor instead.
PID_MODES = ("from_raw", "mutated", "header", "tc-header")
_DIFFER = (2, 1, 4, 3, 6, 7, 5)          # bit 0 packet type, bit 1 secondary header flag, bit 2 APID


def _mk_pid(t, pos: int, mode: str) -> PacketId:
    t = (int(t[0]), int(t[1]), int(t[2]))
    if mode == "from_raw":
        return PacketId.from_raw(raw_id(t))
    d = _DIFFER[(pos + t[2]) % len(_DIFFER)]
    o = (t[0] ^ (d & 1), t[1] ^ ((d >> 1) & 1), t[2] ^ (0x2A5 if d & 4 else 0))
    try:
        if mode == "mutated":
            p = PacketId(PacketType(o[0]), bool(o[1]), o[2])
            _ = (p.raw(), p == PacketId(PacketType(t[0]), bool(t[1]), t[2]))
            if d & 1:
                p.ptype = PacketType(t[0])
            if d & 2:
                p.sec_header_flag = bool(t[1])
            if d & 4:
                p.apid = t[2]
            return p
        if mode == "tc-header" and t[0] == 1 and t[1] == 1:
            from spacepackets.ecss.tc import PusTc
            h = sp.SpacePacketHeader(packet_type=PacketType(pos % 2), apid=t[2], seq_count=pos, data_len=0)
            h.pack()
            return PusTc.from_sp_header(h, 17, 1).packet_id
        h = sp.SpacePacketHeader(packet_type=PacketType(o[0]), apid=o[2], seq_count=pos, data_len=1, sec_header_flag=bool(o[1]))
        _ = (h.pack(), h.packet_id.raw())
        if d & 2:
            h.sec_header_flag = bool(t[1])
        if d & 1:
            h.packet_type = PacketType(t[0])
        if d & 4:
            h.apid = t[2]
        return h.packet_id
    except (AttributeError, TypeError):
        return PacketId(PacketType(t[0]), bool(t[1]), t[2])


def _pids(a) -> List[PacketId]:
    """the registered IDs as a program holds them: ONE list per configuration, created once and passed to every
    parser call of that configuration (cases with equal `ids` share the instance, whatever ran in between); with the key
    "pid_objects" a list of its own, the objects obtained as that key says"""
    mode = a.get("pid_objects")
    if mode in PID_MODES:
        return [_mk_pid(t, pos, mode) for pos, t in enumerate(a["ids"])]
    return core.REUSE.get("C13.packet_ids " + str(a["ids"]), lambda: _mk_pids(a["ids"]))


def _pids_untouched(a, pids: List[PacketId], before=None) -> None:
    """the parser only reads the registered IDs (assumption 2 of this property: they stay the same for the whole history):
    the list still holds what a freshly made one would (`before`: what it showed right before the first parser call)"""
    want = [(t[0], t[1], t[2], raw_id(t)) for t in a["ids"]]
    have = [_pid_view(p) for p in pids]
    if have != want:
        if before is not None and before == have:
            raise SelfCheckFailure(f"the PacketId objects registered with the parser show (type, flag, APID, raw()) {have} - before and after the "
                                   f"parser calls; objects with these fields have the raw values {[w[3] for w in want]} (the parser matches "
                                   f"the 13 bits of raw())")
        raise SelfCheckFailure(f"the packet_ids sequence passed to the parser reads (type, flag, APID, raw()) {have} after the call, it was "
                               f"built as {want}")


def _prime(a) -> None:
    """`prior` configurations: the process has parsed a stream with gaps (gap ‖ packet ‖ gap ‖ packet ‖ gap, one buffer,
    one call) for each of them before the history of this line starts"""
    done: List[Any] = []
    for ids in a.get("prior") or []:
        if not ids:
            continue
        done.append(ids)
        ids_raw = [raw_id(t) for t in ids]

        def pk(t, n: int) -> bytes:
            w = raw_id(t)
            return bytes([w >> 8, w & 0xFF, 0xC0, n, 0, 1, 0xA5, 0x5A])

        first, last = pk(ids[0], 0), pk(ids[-1], 1)
        gap = next((bytes([c]) * 3 for c in (0xE7, 0x5A, 0x01, 0xFE) if is_junk(ids_raw, bytes([c]) * 3, first)), b"")
        stream = gap + first + gap + last + gap
        q = deque([bytearray(stream)])
        out = [bytes(p) for p in parse_space_packets(q, _pids({"ids": ids}))]
        exp_packets, exp_rest, _ = spec_scan(ids_raw, stream)
        r = b"".join(bytes(c) for c in q)
        if out != exp_packets or canon(ids_raw, r) != canon(ids_raw, exp_rest):
            raise SelfCheckFailure(f"configurations used in this order before the line's own: {done}; with the last one {stream.hex()} in one "
                                   f"buffer returned {[p.hex() for p in out]}, queue {r.hex()}; it contains exactly {[p.hex() for p in exp_packets]}")


def _returned_view(objs) -> List[str]:
    return [bytes(p).hex() for p in objs]


def _run(a, steps: List[Optional[bytes]]) -> Dict[str, Any]:
    if "prior" in a:
        _prime(a)
    pids = _pids(a)
    pids_before = [_pid_view(p) for p in pids] if a.get("pid_objects") else None
    ids_raw = [raw_id(t) for t in a["ids"]]
    q: deque = deque()
    fed = bytearray()
    returned: List[bytes] = []
    handed_out: List[Any] = []          # the very objects the calls returned, kept as a program keeps received packets
    packets, rest, rest_canon, rest_cmp, queue = [], [], [], [], []
    # "feed": "reused_buffer" (ignored by the model, whose deque holds octet strings): the receiver has ONE receive
    # buffer; a chunk that is parsed right away (the next step is a parser call) is received into that buffer
    # (rx[:] = chunk, like recv_into) and the buffer itself is appended. Legal for a parser that takes the chunks out of
    # the deque and leaves its own remainder there: after a call nothing in the deque may still be the caller's buffer.
    # Chunks that stay pending over a further append get an object of their own, as in the default mode.
    reuse = a.get("feed") == "reused_buffer"
    rx = bytearray()
    for i, st in enumerate(steps):
        if st is not None:
            if reuse and i + 1 < len(steps) and steps[i + 1] is None:
                left = b"".join(bytes(c) for c in q)
                try:
                    rx[:] = st
                except BufferError as e:
                    raise SelfCheckFailure(f"the receive buffer appended for an earlier call can no longer be refilled after {len(packets)} "
                                           f"parser calls ({e}): something the parser returned or left in the deque is a view of it")
                now = b"".join(bytes(c) for c in q)
                if now != left:
                    raise SelfCheckFailure(f"after call {len(packets) - 1} the deque held {left.hex()[:200]}; it reads {now.hex()[:200]} once the "
                                           f"receiver has refilled its receive buffer (the bytearray it had appended before that call) with the "
                                           f"next chunk {bytes(st).hex()[:120]}: the deque still holds the caller's buffer")
                q.append(rx)
            else:
                q.append(bytearray(st))
            fed.extend(st)
            continue
        out = parse_space_packets(q, pids) if i % 2 else parse_space_packets(analysis_queue=q, packet_ids=pids)
        got = [bytes(p) for p in out]
        chunks = [bytes(c) for c in q]
        r = b"".join(chunks)
        k = len(packets)
        handed_out += out
        returned += got
        # the property evaluated on the real code alone (lossless oracle) for the octets fed so far
        exp_packets, exp_rest, n_junk = spec_scan(ids_raw, bytes(fed))
        if returned != exp_packets:
            raise SelfCheckFailure(f"after call {k}: packets returned so far {[p.hex()[:80] for p in returned]}, the octets fed so far "
                                   f"contain exactly {[p.hex()[:80] for p in exp_packets]}")
        if not bytes(fed).endswith(r):
            raise SelfCheckFailure(f"after call {k}: the queue ({r.hex()[:200]}) is not a suffix of the octets fed")
        if canon(ids_raw, r) != canon(ids_raw, exp_rest):
            raise SelfCheckFailure(f"after call {k}: the queue holds {r.hex()[:200]}, the not-yet-complete tail is {exp_rest.hex()[:200]}")
        if n_junk == 0 and r != exp_rest:
            raise SelfCheckFailure(f"after call {k}: junk-free stream, the queue holds {r.hex()[:200]} instead of exactly the tail {exp_rest.hex()[:200]}")
        packets.append([p.hex() for p in got])
        rest_cmp.append((r if n_junk == 0 else canon(ids_raw, r)).hex())
        rest.append(r.hex())
        rest_canon.append(canon(ids_raw, r).hex())
        queue.append([c.hex() for c in chunks])
    _pids_untouched(a, pids, pids_before)
    if handed_out:
        # packets handed out by earlier calls are still the octets they were ("byte-identical"): a later call on the
        # same deque must not grow, trim or overwrite them ...
        if [bytes(p) for p in handed_out] != returned:
            raise SelfCheckFailure(f"later parser calls changed packets returned by earlier calls: they were {[p.hex()[:60] for p in returned]}, "
                                   f"the same objects now hold {[bytes(p).hex()[:60] for p in handed_out]}")
        # ... nor do the calls of a LATER history (another deque, possibly another configuration)
        core.ISOLATION.check("C13.returned-packets", handed_out, _returned_view)
    final = b"".join(bytes(c) for c in q)
    final_cmp = final if spec_scan(ids_raw, bytes(fed))[2] == 0 else canon(ids_raw, final)
    return {"packets": packets, "rest_cmp": rest_cmp, "final_cmp": final_cmp.hex(), "rest": rest, "rest_canon": rest_canon,
            "queue": queue, "final": final.hex()}


def op_sp_parse_run(a):
    return _run(a, [None if s is None else unhx(s) for s in a["steps"]])


def op_sp_parse_cuts(a):
    return _run(a, cut_schedule(cut_chunks(unhx(a["stream"]), a["cuts"]), a["parses"]))


def op_sp_parse_buf(a):
    raw = unhx(a["raw"])
    ids_raw = [raw_id(t) for t in a["ids"]]
    if "prior" in a:
        _prime(a)
    pids = _pids(a)
    pids_before = [_pid_view(p) for p in pids] if a.get("pid_objects") else None
    chunk = bytearray(raw)
    q = deque([chunk])
    objs = parse_space_packets(q, pids)
    out = [bytes(p) for p in objs]
    r = b"".join(bytes(c) for c in q)
    exp_packets, exp_rest, n_junk = spec_scan(ids_raw, raw)
    if out != exp_packets:
        raise SelfCheckFailure(f"returned {[p.hex() for p in out]}, the buffer contains exactly {[p.hex() for p in exp_packets]}")
    if not raw.endswith(r) or canon(ids_raw, r) != canon(ids_raw, exp_rest) or (n_junk == 0 and r != exp_rest):
        raise SelfCheckFailure(f"the queue holds {r.hex()}, the not-yet-complete tail is {exp_rest.hex()}")
    _pids_untouched(a, pids, pids_before)
    if objs:
        core.ISOLATION.check("C13.returned-packets", list(objs), _returned_view)
    # the caller reuses the buffer it had appended (refills it in place): neither the packets handed out nor what the
    # parser left in the deque for the next call are the caller's buffer
    for pat in (bytes(b ^ 0xFF for b in raw), b"\xaa" * len(raw)):
        chunk[:] = pat
        out2, r2 = [bytes(p) for p in objs], b"".join(bytes(c) for c in q)
        if out2 != out or r2 != r:
            raise SelfCheckFailure(f"after the call returned {[p.hex()[:60] for p in out]} and left {r.hex()[:120]} in the deque, the caller "
                                   f"overwrote the bytearray it had appended with {pat.hex()[:120]}: now the returned packets read "
                                   f"{[p.hex()[:60] for p in out2]} and the deque holds {r2.hex()[:120]}")
    return {"packets": [p.hex() for p in out], "rest_cmp": (r if n_junk == 0 else canon(ids_raw, r)).hex(), "rest": r.hex(),
            "rest_canon": canon(ids_raw, r).hex()}


def op_sp_parse_consts(a):
    return {"id_modulus": int(sp.PACKET_ID_MASK) + 1, "header_len": int(sp.CCSDS_HEADER_LEN),
            "min_total": int(sp.get_total_space_packet_len_from_len_field(0))}


def _says_how(fn):
    """a finding on a line with the key "pid_objects" says how the registered PacketId objects were obtained"""
    def wrapped(a):
        try:
            return fn(a)
        except SelfCheckFailure as e:
            if a.get("pid_objects") in PID_MODES:
                raise SelfCheckFailure(f"{e} [the registered PacketId objects for {a['ids']} were obtained by: {a['pid_objects']}, see PID_MODES]")
            raise
    return wrapped


OPS = {"sp_parse_run": _says_how(op_sp_parse_run), "sp_parse_cuts": _says_how(op_sp_parse_cuts), "sp_parse_buf": _says_how(op_sp_parse_buf),
       "sp_parse_consts": op_sp_parse_consts}

# what is compared with the model: the packets returned by every call, and the queue content after every call
# (rest_cmp / final_cmp: exactly while the octets fed contain no junk, in canonical form otherwise; the decision
# is taken inside the op, from the octets, so it stays right when a failing case is shrunk)
CMP = ["packets", "rest_cmp", "final_cmp"]
CMP_BUF = ["packets", "rest_cmp"]


# --------------------------------------------------------------------------------------------
# stream construction
# --------------------------------------------------------------------------------------------
ID_SETS: List[List[Triple]] = [
    [(0, 1, 0x123), (1, 0, 5)],
    [(0, 0, 0)],                       # raw 0x0000: zero-filled data reads as a registered ID
    [(1, 1, 0x7FF)],                   # raw 0x1FFF: 0xFF 0xFF reads as a registered ID
    [(0, 1, 0x0FF), (0, 1, 0x100), (1, 1, 0x100)],
    [(1, 0, 0x2AA)],
    [(0, 0, 1), (0, 0, 2), (1, 0, 1), (0, 1, 1), (1, 1, 0x400)],
]


# parser configurations that one process uses side by side: the same APIDs (in the same or another order) registered
# with another packet type / secondary-header flag (TM downlink and TC uplink of one application, ...). Whatever the
# parser remembers between calls must not carry over from one configuration to the other.
ID_FAMILIES: List[List[List[Triple]]] = [
    [[(0, 1, 3)], [(1, 1, 3)], [(0, 0, 3)], [(1, 0, 3)]],                                    # 0x0803 / 0x1803 / 0x0003 / 0x1003
    [[(1, 0, 0x2AA)], [(0, 1, 0x2AA)], [(0, 0, 0x2AA)]],                                     # the first one is ID_SETS[4]
    [[(0, 1, 0x1F0), (1, 0, 7)], [(1, 1, 0x1F0), (0, 0, 7)], [(1, 0, 7), (0, 1, 0x1F0)], [(0, 0, 0x1F0), (0, 0, 7)]],
    [[(0, 1, 0x123), (1, 0, 5)], [(1, 1, 0x123), (1, 1, 5)], [(1, 0, 0x123), (0, 0, 5)]],    # the first one is ID_SETS[0]
]


def mk_packet(rng: random.Random, t: Triple, dlen: int, version: int = 0, fill: Optional[int] = None) -> bytes:
    w0 = (version << 13) | raw_id(t)
    w1 = rng.getrandbits(16)
    data = bytes([fill]) * (dlen + 1) if fill is not None else rbytes(rng, dlen + 1)
    return bytes([w0 >> 8, w0 & 0xFF, w1 >> 8, w1 & 0xFF, dlen >> 8, dlen & 0xFF]) + data


def mk_junk(rng: random.Random, ids_raw: Sequence[int], n: int, nxt: bytes) -> bytes:
    if n == 0:
        return b""
    for _ in range(40):
        j = rbytes(rng, n)
        if is_junk(ids_raw, j, nxt):
            return j
    for c in (0xE7, 0x5A, 0x01):
        j = bytes([c]) * n
        if is_junk(ids_raw, j, nxt):
            return j
    return b""


class Stream:
    """junk1 ‖ packet1 ‖ … ‖ junkN ‖ packetN ‖ junk ‖ tail, with the decomposition known by construction"""

    def __init__(self, ids: List[Triple], segs: List[Tuple[bytes, bytes]], tail_junk: bytes, tail: bytes):
        self.ids, self.segs, self.tail_junk, self.tail = ids, segs, tail_junk, tail
        self.ids_raw = [raw_id(t) for t in ids]
        self.data = b"".join(j + p for j, p in segs) + tail_junk + tail
        self.packets = [p for _, p in segs]
        self._junk: Optional[int] = None
        self._wf: Optional[bool] = None
        self.prior: Optional[List[List[Triple]]] = None     # see the module docstring
        self.pid_objects: Optional[str] = None              # see PID_MODES
        # positions worth cutting at: around every packet start / header end / packet end
        marks = set()
        pos = 0
        for j, p in segs:
            pos += len(j)
            for d in (-1, 0, 1, 2, 3, 4, 5, 6, 7, 8):
                marks.add(pos + d)
            pos += len(p)
            for d in (-2, -1, 0, 1):
                marks.add(pos + d)
        pos += len(tail_junk)
        for d in (-1, 0, 1, 2, 5, 6, 7):
            marks.add(pos + d)
        self.marks = sorted(m for m in marks if 0 < m < len(self.data))

    def boundary_pool(self, rng: random.Random, big: int = 1024) -> List[int]:
        """cut positions for few-cut schedules on streams with large packets: every position from 6 before to 8 behind
        each packet boundary (start and end of every packet, hence both ends of every junk gap), and positions deep
        inside the body of every packet of `big` or more octets"""
        pool = set()
        pos = 0
        for j, p in self.segs:
            pos += len(j)
            ends = (pos, pos + len(p))
            for b in ends:
                pool.update(range(b - 6, b + 9))
            if len(p) >= big:
                pool.add(pos + len(p) // 2)
                pool.add(rng.randint(pos + 9, pos + len(p) - 9))
            pos += len(p)
        return sorted(m for m in pool if 0 < m < len(self.data))

    def case_cut_at(self, positions: Sequence[int], tag: str, feed: Optional[bool] = None) -> Case:
        """chunks ending at the given positions, a parser call after every chunk (explicit schedule: the cut mask of a
        stream of thousands of octets would be a number of thousands of bits)"""
        steps: List[Optional[bytes]] = []
        lo = 0
        for hi in list(positions) + [len(self.data)]:
            steps += [self.data[lo:hi], None]
            lo = hi
        return self.case_run(steps, tag, feed)

    def wf(self) -> bool:
        """the hypotheses of C13_lossless for the decomposition this stream was BUILT with, evaluated by the harness
        (false e.g. when a substituted octet or an unregistered packet happens to read as a registered ID: the octets
        then decompose differently, see spec_scan)"""
        r = self.ids_raw
        for j, p in self.segs:
            if not (len(p) > 6 and pid_at(p, 0) in r and len(p) == ((p[4] << 8) | p[5]) + 7 and is_junk(r, j, p)):
                return False
        t = self.tail
        inc = len(t) <= 6 or (pid_at(t, 0) in r and len(t) < ((t[4] << 8) | t[5]) + 7)
        return inc and is_junk(r, self.tail_junk, t)

    def tag(self, tag: str) -> str:
        if self._junk is None:
            self._junk = spec_scan(self.ids_raw, self.data)[2]
        if self._wf is None:
            self._wf = self.wf()
        return (tag + ("" if self._junk == 0 else "+junk") + ("" if self._wf else "-arbitrary")
                + ("" if self.pid_objects is None else "+pid-" + self.pid_objects))

    def _op(self, op: Dict[str, Any]) -> Dict[str, Any]:
        if self.prior is not None:
            op["prior"] = [[list(t) for t in ids] for ids in self.prior]
        if self.pid_objects is not None:
            op["pid_objects"] = self.pid_objects
        return op

    def _fed(self, op: Dict[str, Any], tag: str, feed: Optional[bool], salt: bytes) -> str:
        """how the receiver hands the chunks over (see _run): feed=True through ONE reused receive buffer, False a new
        bytearray per chunk, None = one or the other, decided by the schedule itself (half of the histories each way)"""
        if feed is None:
            feed = bool(zlib.crc32(salt) & 1)
        if feed:
            op["feed"] = "reused_buffer"
            return tag + "+rxbuf"
        return tag

    def case_cuts(self, cuts: int, parses: int, tag: str, feed: Optional[bool] = None) -> Case:
        op = {"op": "sp_parse_cuts", "ids": [list(t) for t in self.ids], "stream": self.data.hex(), "cuts": cuts, "parses": parses}
        tag = self._fed(op, tag, feed, b"%x:%x" % (cuts, parses))
        return Case(self._op(op), "valid", tag=self.tag(tag), keys=CMP)

    def case_run(self, steps: List[Optional[bytes]], tag: str, feed: Optional[bool] = None) -> Case:
        op = {"op": "sp_parse_run", "ids": [list(t) for t in self.ids], "steps": [None if s is None else s.hex() for s in steps]}
        tag = self._fed(op, tag, feed, bytes((0 if st is None else 1 + len(st) % 250) for st in steps))
        return Case(self._op(op), "valid", tag=self.tag(tag), keys=CMP)

    def case_buf(self, tag: str) -> Case:
        return Case(self._op({"op": "sp_parse_buf", "ids": [list(t) for t in self.ids], "raw": self.data.hex()}), "valid",
                    tag=self.tag(tag), keys=CMP_BUF)


def mk_stream(rng: random.Random, ids: List[Triple], dlens: List[int], junk: List[int], tail_junk: int, tail_cut: Optional[int],
              versions: bool = True) -> Stream:
    """dlens: data-length field per packet; junk: junk length in front of each packet;
    tail_cut: None = no tail, k = the first k octets of a further packet"""
    ids_raw = [raw_id(t) for t in ids]
    pk = [mk_packet(rng, rng.choice(ids), d, rng.choice([0, 0, 0, 1, 5, 7]) if versions else 0) for d in dlens]
    segs = [(mk_junk(rng, ids_raw, n, p), p) for n, p in zip(junk, pk)]
    tail = b""
    if tail_cut is not None:
        further = mk_packet(rng, rng.choice(ids), max(0, tail_cut - 6 + rng.choice([0, 0, 1, 9])))
        tail = further[:min(tail_cut, len(further) - 1)]
    tj = mk_junk(rng, ids_raw, tail_junk, tail)
    return Stream(ids, segs, tj, tail)


def all_parse_subsets(n_chunks: int) -> range:
    return range(1 << max(0, n_chunks - 1))


def popcount(x: int) -> int:
    return bin(x).count("1")


class C13(Prop):
    id = "C13"
    title = "Space-packet stream parser reassembles losslessly under any fragmentation"
    lean_modules = ["SpVerif.Props.C13"]
    exhaustive_note = ("every one of the 2^(n-1) cut sets of streams of up to 16 octets (two packets, with and without junk and an "
                       "incomplete tail; parser call after every chunk) and, for streams of up to 9 octets, every cut set combined "
                       "with every subset of parser-call points; all 65 536 values of the first header word against the registered "
                       "IDs (mask 0x1FFF); every set of at most 3 (thorough: 5) cuts of two three-packet streams; every pair (thorough: also triples) of cut positions "
                       "from the boundary pool (6 before to 8 behind every packet boundary, and inside the body of packets of 1024+ octets) "
                       "of four streams with large packets, a parser call after every chunk; thorough tier: all cut sets up to 18 octets (three packets), all cut sets x call points up to 11 octets")
    trusted_base = [
        "collections.deque (append/popleft/clear/truthiness) and bytearray.extend/slicing of CPython: modelled as a list of octet strings, not verified",
        "arithmetic normal form of the model (word % 8192, length field + 7) vs mask/struct.unpack of the code: tied by the exhaustive first-word sweep and the length-field boundary pool",
    ]
    assumptions = [
        "the deque is filled on the right (deque.append) by a single caller; nothing else touches it between two steps",
        "packet_ids are PacketId objects with ptype in {0,1} (PacketType), APID 0..2047 and stay the same for the whole history",
        "a registered ID that can be read inside what the statement calls junk makes those octets a (possibly incomplete) packet, not junk: "
        "such streams are compared with the model as arbitrary input (expect=any), not judged by the lossless clause",
    ]

    def impl_ops(self):
        return OPS

    def table_sync(self):
        d = []
        if sp.PACKET_ID_MASK != 0x1FFF:
            d.append(f"PACKET_ID_MASK={sp.PACKET_ID_MASK!r} model=0x1FFF (idModulus 8192)")
        if sp.CCSDS_HEADER_LEN != 6 or sp.SPACE_PACKET_HEADER_SIZE != 6:
            d.append(f"CCSDS_HEADER_LEN={sp.CCSDS_HEADER_LEN!r} model=6")
        for lf in (0, 1, 255, 65535):
            if sp.get_total_space_packet_len_from_len_field(lf) != lf + 7:
                d.append(f"get_total_space_packet_len_from_len_field({lf}) != {lf + 7}")
        if [int(x) for x in PacketType] != [0, 1]:
            d.append("PacketType members")
        return d

    def nontrivial(self, c: Case) -> bool:
        o = c.op
        if o["op"] == "sp_parse_cuts":
            return len(o["stream"]) >= 14
        if o["op"] == "sp_parse_run":
            return any(s for s in o["steps"] if s) and any(s is None for s in o["steps"])
        if o["op"] == "sp_parse_buf":
            return len(o["raw"]) >= 14
        return False

    def neighbours(self, c: Case, rng: random.Random) -> Iterator[Case]:
        """same octets, every single cut, one call per chunk — as arbitrary input"""
        o = c.op
        if o["op"] == "sp_parse_cuts":
            data = o["stream"]
        elif o["op"] == "sp_parse_run":
            data = "".join(s for s in o["steps"] if s)
        elif o["op"] == "sp_parse_buf":
            data = o["raw"]
        else:
            return
        n = len(data) // 2
        extra = {k: o[k] for k in ("prior", "pid_objects") if k in o}
        for k in range(min(n - 1, 64)):
            yield Case(dict({"op": "sp_parse_cuts", "ids": o["ids"], "stream": data, "cuts": 1 << k, "parses": 1}, **extra), "valid",
                       tag="neighbour", keys=CMP)
        for k in range(min(n - 1, 64)):
            yield Case(dict({"op": "sp_parse_cuts", "ids": o["ids"], "stream": data, "cuts": 1 << k, "parses": 1,
                             "feed": "reused_buffer"}, **extra), "valid", tag="neighbour+rxbuf", keys=CMP)

    # ----------------------------------------------------------------------------------------
    def cases(self, rng: random.Random, tier: str) -> Iterator[Case]:
        thorough = tier == "thorough"
        yield Case({"op": "sp_parse_consts"}, "valid", tag="consts")

        # --- the cuts the statement names, on small junk-free streams, first (smallest replays first) --------
        ids0 = ID_SETS[0]
        for dl in (0, 1, 3):
            s = mk_stream(rng, ids0, [dl], [0], 0, None, versions=False)
            for k in range(len(s.data) - 1):
                # (both ways of handing the chunks over: a new bytearray per chunk / ONE reused receive buffer; a cut
                #  inside the 6-octet primary header leaves fewer than 6 octets pending in an otherwise empty deque)
                yield s.case_cuts(1 << k, 1, "single-cut", feed=False)
                yield s.case_cuts(1 << k, 1, "single-cut", feed=True)
            for tc in (1, 3, 5, 6, 7):
                s2 = mk_stream(rng, ids0, [dl], [0], 0, tc, versions=False)
                yield s2.case_cuts(0, 0, "packet+tail", feed=False)
                for k in sorted({0, 2, 4, 5, 6, len(s2.data) - len(s2.tail) - 1, len(s2.data) - 2}):
                    if 0 <= k <= len(s2.data) - 2:
                        yield s2.case_cuts(1 << k, 1, "packet+tail", feed=True)

        # --- explicit schedules: calls on an empty deque, empty chunks, repeated calls, appends after the last call
        s = mk_stream(rng, ids0, [1, 0], [0, 0], 0, 5)
        d = s.data
        yield s.case_run([None, None, b"", None, d[:3], None, None, b"", d[3:6], None, d[6:7], b"", None, d[7:], None, None], "explicit")
        yield s.case_run([d[:4], None, d[4:]], "explicit-no-final-call")
        yield s.case_run([b"", b"", None], "explicit-empty-chunks")
        yield s.case_run([d, None, None], "explicit")
        yield s.case_run([d[:10], None, d[10:], None, d[:9]], "explicit-trailing-append")
        yield s.case_run([bytes([x]) for x in d] + [None], "explicit-octet-chunks")
        for id_set in ID_SETS:
            st = mk_stream(rng, id_set, [0, 2], [0, 3], 2, 4)
            steps: List[Optional[bytes]] = []
            for x in st.data:
                steps += [bytes([x]), None]
            yield st.case_run(steps, "explicit-octet-by-octet", feed=False)
            yield st.case_run(steps, "explicit-octet-by-octet", feed=True)
        yield Case({"op": "sp_parse_run", "ids": [], "steps": [None, rbytes(rng, 20).hex(), None, rbytes(rng, 3).hex(), None]}, "valid",
                   tag="no-ids", keys=CMP)

        # --- the registered PacketId objects obtained every way (key "pid_objects", see PID_MODES): every ID set, gaps in
        #     front of / between / behind the packets, one buffer, unfragmented, a cut at every marked position -------------
        for k, id_set in enumerate(ID_SETS + [fam[0] for fam in ID_FAMILIES] + [[(1, 1, 0x42)], [(1, 1, 5), (0, 1, 5), (1, 0, 5), (0, 0, 5)]]):
            for mode in PID_MODES:
                st = mk_stream(rng, id_set, [rng.choice([0, 1, 4]), rng.choice([0, 2])], [rng.choice([0, 2]), rng.choice([1, 3])], 2,
                               rng.choice([None, 4]))
                st.pid_objects = mode
                yield st.case_buf("id-objects-buf")
                yield st.case_cuts(0, 0, "id-objects")
                for m in st.marks:
                    yield st.case_cuts(1 << (m - 1), 1, "id-objects")

        # --- exhaustive: every cut set x every subset of call points, streams of <= 9 octets ------------------
        small = [
            mk_stream(rng, ids0, [0], [0], 0, None),          # 7
            mk_stream(rng, ids0, [1], [0], 0, None),          # 8
            mk_stream(rng, ids0, [0], [0], 0, 1),             # 7 + 1
            mk_stream(rng, ids0, [0], [1], 0, None),          # junk 1 + 7
            mk_stream(rng, ids0, [0], [0], 0, 2),             # 7 + 2
            mk_stream(rng, ID_SETS[1], [0], [2], 0, None),    # junk 2 + 7, ID 0x0000
        ]
        if thorough:
            small += [mk_stream(rng, rng.choice(ID_SETS), [0], [1], 1, 2),      # 1 + 7 + 1 + 2 = 11
                      mk_stream(rng, rng.choice(ID_SETS), [3], [0], 0, 1),      # 10 + 1
                      mk_stream(rng, rng.choice(ID_SETS), [2], [1], 0, None)]   # 1 + 9
        for s in small:
            n = len(s.data)
            for cuts in range(1 << (n - 1)):
                for parses in all_parse_subsets(popcount(cuts) + 1):
                    yield s.case_cuts(cuts, parses, "all-cuts-x-all-calls")

        # --- exhaustive: every cut set, one call per chunk (and one variant with random call points) ----------
        sweep = [
            mk_stream(rng, ids0, [0, 1], [0, 0], 0, 1),                   # 7 + 8 + 1 = 16, junk-free
            mk_stream(rng, rng.choice(ID_SETS), [0, 0], [0, 2], 0, None),  # 7 + 2 + 7 = 16, junk between
            mk_stream(rng, rng.choice(ID_SETS), [1], [1], 2, 3),           # 1 + 8 + 2 + 3 = 14, junk before the tail
        ]
        if thorough:
            sweep += [mk_stream(rng, rng.choice(ID_SETS), [0, 0], [0, 0], 0, 4),   # 7 + 7 + 4 = 18, junk-free
                      mk_stream(rng, rng.choice(ID_SETS), [0, 1], [1, 1], 0, 1)]   # 1 + 7 + 1 + 8 + 1 = 18, with junk
        for s in sweep:
            n = len(s.data)
            for cuts in range(1 << (n - 1)):
                yield s.case_cuts(cuts, (1 << 20) - 1, "all-cuts")
            for cuts in range(0, 1 << (n - 1), 7 if thorough else 23):
                yield s.case_cuts(cuts, rng.getrandbits(16), "all-cuts-random-calls")

        # --- three packets (21 octets and more): every cut set with at most 3 (thorough: 5) cuts -------------------
        import itertools
        three = [mk_stream(rng, ids0, [0, 0, 0], [0, 0, 0], 0, None),
                 mk_stream(rng, rng.choice(ID_SETS), [0, 1, 0], [0, 1, 0], 0, 2)]
        for s in three:
            n = len(s.data)
            for k in range(0, (5 if thorough else 3) + 1):
                for pos in itertools.combinations(range(n - 1), k):
                    cuts = sum(1 << q for q in pos)
                    yield s.case_cuts(cuts, (1 << 8) - 1, "three-packets-few-cuts", feed=False)
                    yield s.case_cuts(cuts, (1 << 8) - 1, "three-packets-few-cuts", feed=True)

        # --- first header word: all 65 536 values against three registered IDs ----------------------------------
        ids3 = ID_SETS[3]
        raw3 = [raw_id(t) for t in ids3]
        tailb = rbytes(rng, 1)
        for w in range(65536):
            buf = bytes([w >> 8, w & 0xFF]) + rbytes(rng, 2) + b"\x00\x00" + tailb
            reg = (w & 0x1FFF) in raw3
            yield Case({"op": "sp_parse_buf", "ids": [list(t) for t in ids3], "raw": buf.hex()}, "valid",
                       tag="first-word-sweep-registered" if reg else "first-word-sweep-other", keys=CMP_BUF)

        # --- length field boundaries (big packets; few cuts, at the places that matter) ---------------------------
        big = [254, 255, 256, 257, 1000] + ([65534, 65535] if thorough else [65535])
        for dl in big:
            s = mk_stream(rng, rng.choice(ID_SETS), [dl, 0], [0, 0], 0, rng.choice([None, 3, 6]))
            n = len(s.data)
            L = dl + 7
            for pos in (1, 2, 5, 6, 7, L - 1, L, L + 1, L + 6):
                if 0 < pos < n:
                    steps = [s.data[:pos], None, s.data[pos:], None]
                    yield s.case_run(steps, "length-boundary")
            yield s.case_run([s.data, None], "length-boundary")

        # --- packets of 1024 and more octets: few cuts, from the boundary pool, a parser call after every chunk ---------
        yield from self._large_packets(rng, thorough)

        # --- several parser configurations in one process, same APIDs, other type / secondary-header flag ------------
        yield from self._configurations(rng, thorough)

        # --- every registered-ID set, every version, boundary cuts and random cut sets on longer streams --------
        n_streams = 1500 if thorough else 144
        for i in range(n_streams):
            ids = ID_SETS[i % len(ID_SETS)]
            n_p = rng.choice([1, 2, 2, 3, 4, 6])
            dlens = [rng.choice([0, 0, 1, 2, 5, 6, 7, 20, 33]) for _ in range(n_p)]
            with_junk = i % 3 != 0
            junk = [rng.choice([0, 0, 1, 2, 5, 6, 7, 10]) if with_junk else 0 for _ in range(n_p)]
            tj = rng.choice([0, 1, 3, 6, 8]) if with_junk else 0
            tc = rng.choice([None, 0, 1, 2, 5, 6, 7, 8, 12])
            s = mk_stream(rng, ids, dlens, junk, tj, tc)
            if i % 2:
                s.pid_objects = PID_MODES[(i // 2) % len(PID_MODES)]
            n = len(s.data)
            # one cut at every marked position, one call per chunk
            for m in s.marks:
                yield s.case_cuts(1 << (m - 1), 1, "boundary-cut")
            # pairs of marked positions
            for _ in range(12):
                if len(s.marks) >= 2:
                    a, b = rng.sample(s.marks, 2)
                    yield s.case_cuts((1 << (a - 1)) | (1 << (b - 1)), rng.getrandbits(2), "boundary-cut-pair")
            # random cut sets of every density, random call points
            for dens in (0.05, 0.2, 0.5, 0.9, 1.0):
                for _ in range(4 if thorough else 2):
                    cuts = 0
                    for k in range(n - 1):
                        if rng.random() < dens:
                            cuts |= 1 << k
                    yield s.case_cuts(cuts, rng.getrandbits(popcount(cuts) + 1) if rng.random() < 0.7 else (1 << (n + 1)) - 1, "random-cuts")
            # explicit schedule with empty chunks and repeated calls
            chunks = cut_chunks(s.data, rng.getrandbits(max(1, n - 1)) & rng.getrandbits(max(1, n - 1)))
            steps = []
            for c in chunks:
                steps.append(c)
                x = rng.random()
                if x < 0.5:
                    steps.append(None)
                elif x < 0.6:
                    steps += [None, None]
                elif x < 0.7:
                    steps += [b"", None]
            steps.append(None)
            yield s.case_run(steps, "random-schedule")

        # --- packets produced by the package itself, registered through their packet_id property ---------------
        yield from self._library_packets(rng, thorough)

        # --- streams containing packets with unregistered IDs, and arbitrary octets --------------------------------
        for i in range(6000 if thorough else 700):
            ids = ID_SETS[i % len(ID_SETS)]
            ids_raw = [raw_id(t) for t in ids]
            kind = i % 4
            if kind == 0:
                # registered – unregistered – registered; the unregistered packet is junk if no registered ID can be read in it
                other = (rng.randint(0, 1), rng.randint(0, 1), rng.randint(0, 2047))
                p1 = mk_packet(rng, rng.choice(ids), rng.choice([0, 1, 4]))
                p2 = mk_packet(rng, rng.choice(ids), rng.choice([0, 2, 9]))
                u = mk_packet(rng, other, rng.choice([0, 1, 6]), fill=rng.choice([0xE7, 0x5A, None]))
                s = Stream(ids, [(b"", p1), (u, p2)], b"", b"")
            elif kind == 1:
                # small alphabet: accidental IDs and small length fields are frequent
                alpha = [ids_raw[0] >> 8, ids_raw[0] & 0xFF, 0, 0, 1, 2, 7, 0xFF]
                data = bytes(rng.choice(alpha) for _ in range(rng.randint(0, 40)))
                s = Stream(ids, [], b"", data)
            elif kind == 2:
                data = rbytes(rng, rng.randint(0, 30))
                s = Stream(ids, [], b"", data)
            else:
                # a valid stream with one octet substituted / removed / inserted
                base = mk_stream(rng, ids, [rng.choice([0, 1, 5]) for _ in range(rng.randint(1, 3))], [0, 0, 0][:3], 0, rng.choice([None, 4]))
                b = bytearray(base.data)
                pos = rng.randrange(len(b))
                how = rng.randint(0, 2)
                if how == 0:
                    b[pos] = rng.choice([0, 0xFF, b[pos] ^ 1, b[pos] ^ 0x20, rng.getrandbits(8)])
                elif how == 1:
                    del b[pos]
                else:
                    b.insert(pos, rng.getrandbits(8))
                s = Stream(ids, [], b"", bytes(b))
            n = len(s.data)
            if n == 0:
                continue
            yield s.case_buf("malformed-buf" if not s.wf() else "as-built-buf")
            for _ in range(3):
                cuts = rng.getrandbits(max(1, n - 1)) & rng.getrandbits(max(1, n - 1))
                yield s.case_cuts(cuts, rng.getrandbits(8), "malformed" if not s.wf() else "as-built")
            # every truncation of the stream, in two chunks
            if i % 10 == 0:
                for k in range(n):
                    t = Stream(ids, [], b"", s.data[:k])
                    yield t.case_cuts(1 << (k // 2), 1, "truncation")

    def _large_packets(self, rng: random.Random, thorough: bool) -> Iterator[Case]:
        """total packet sizes; a junk gap of g octets in front of a packet is written ("junk", g). A large packet cut
        in its body stays in the queue over several calls; the call that completes it ends at, before or up to 8 octets
        behind its end (inside the next header, inside a gap), and what follows is smaller, equal or larger."""
        import itertools
        plans: List[List[Any]] = [
            [1500, 22],
            [1100, ("junk", 2), 7],
            [1024, 1023],
            [1100, 40, 1030],
        ]
        if thorough:
            plans += [[3000, 40, 1500], [1500, 40, 1100], [22, 1500, ("junk", 5), 22], [1023, 1024, 7], [1500, 1500, 9], [1025, ("junk", 1), 1030, 8]]
        for n_plan, plan in enumerate(plans):
            ids = [ID_SETS[4], ID_SETS[0], ID_SETS[5], ID_SETS[3]][n_plan % 4]
            dlens, junk, gap = [], [], 0
            for x in plan:
                if isinstance(x, tuple):
                    gap = x[1]
                else:
                    dlens.append(x - 7)
                    junk.append(gap)
                    gap = 0
            s = mk_stream(rng, ids, dlens, junk, 0, None)
            pool = s.boundary_pool(rng)
            yield s.case_cut_at([], "large-packets")
            for a in pool:
                yield s.case_cut_at([a], "large-packets-1-cut")
            for pos in itertools.combinations(pool, 2):
                yield s.case_cut_at(pos, "large-packets-2-cuts")
            deep = set()            # pool positions deep inside a large packet
            start = 0
            for j, p in s.segs:
                start += len(j)
                deep.update(m for m in pool if start + 8 < m < start + len(p) - 6)
                start += len(p)
            if thorough:
                # all triples of the pool on the first three streams
                triples = list(itertools.combinations(pool, 3))
                if n_plan >= 3:
                    # beyond the first three streams: a cut deep inside a large packet and two more, at most 3000 per stream
                    triples = [pos for pos in triples if any(m in deep for m in pos)]
                    if len(triples) > 3000:
                        triples = rng.sample(triples, 3000)
                for pos in triples:
                    yield s.case_cut_at(pos, "large-packets-3-cuts")
            else:
                # a sample of triples: a cut deep inside a large packet, two more from the pool
                for _ in range(40):
                    pos = {rng.choice(sorted(deep))} | set(rng.sample(pool, 2))
                    yield s.case_cut_at(sorted(pos), "large-packets-3-cuts")

    def _configurations(self, rng: random.Random, thorough: bool) -> Iterator[Case]:
        """the configurations of a family take turns (A, B, C, A, B, C, ...): the implementation ops run in this process
        in case order, so every configuration is used after each of its siblings has been used. Every stream has gaps
        (octets that cannot be one of ITS registered IDs; they may well read as an ID of a sibling) in front of, between
        and behind its packets."""
        rounds = 8 if thorough else 3
        for fam in ID_FAMILIES:
            for r in range(rounds):
                for ids in fam:
                    n_p = rng.choice([2, 3])
                    dlens = [rng.choice([0, 1, 5, 6, 12]) for _ in range(n_p)]
                    junk = [rng.choice([0, 0, 1, 3]) if k == 0 else rng.choice([1, 1, 2, 4, 7, 9]) for k in range(n_p)]
                    s = mk_stream(rng, ids, dlens, junk, rng.choice([0, 1, 5]), rng.choice([None, None, 3, 7]))
                    # the lines also say which siblings ran before (self-contained: they replay in a new process) ...
                    k = fam.index(ids)
                    s.prior = fam[k + 1:] + fam[:k]
                    s.pid_objects = PID_MODES[(r + k) % len(PID_MODES)] if (r + k) % 3 else None
                    yield s.case_buf("configurations-buf")
                    yield s.case_cuts(0, 0, "configurations")
                    for m in s.marks:
                        yield s.case_cuts(1 << (m - 1), 1, "configurations")
                    for _ in range(4):
                        cuts = rng.getrandbits(len(s.data) - 1) & rng.getrandbits(len(s.data) - 1)
                        yield s.case_cuts(cuts, (1 << 30) - 1, "configurations")
                    # the same gaps, no fragmentation, as one explicit schedule per packet: gap ‖ packet appended and parsed
                    # ... except this one, which relies on the case order alone
                    s.prior = None
                    steps: List[Optional[bytes]] = []
                    for j, p in s.segs:
                        steps += [j + p, None]
                    yield s.case_run(steps + [s.tail_junk + s.tail, None], "configurations-by-order")
                    yield s.case_buf("configurations-by-order-buf")

    def _library_packets(self, rng: random.Random, thorough: bool) -> Iterator[Case]:
        from spacepackets.ccsds.time import CdsShortTimestamp
        from spacepackets.ecss.tc import PusTc
        from spacepackets.ecss.tm import PusTm

        for i in range(40 if thorough else 8):
            apid = rng.choice([0, 1, 3, 0x123, 0x7FF])
            tm = PusTm(apid=apid, service=17, subservice=2, timestamp=CdsShortTimestamp.empty().pack())
            tm2 = PusTm(apid=apid, service=8, subservice=128, source_data=bytearray(rbytes(rng, rng.choice([0, 1, 64]))),
                        timestamp=CdsShortTimestamp.empty().pack())
            tc = PusTc(apid=apid, service=17, subservice=1, app_data=rbytes(rng, rng.choice([0, 3])))
            ids: List[Triple] = []
            for pk in (tm, tc):
                pid = pk.packet_id
                t = (int(pid.ptype), int(bool(pid.sec_header_flag)), int(pid.apid))
                if t not in ids:
                    ids.append(t)
            raws = [bytes(tm.pack()), bytes(tm2.pack()), bytes(tc.pack()), bytes(tm.pack())]
            further = bytes(tm2.pack())
            tail = further[:rng.choice([0, 1, 5, 6, 7, 10, len(further) - 1])]
            s = Stream(ids, [(b"", r) for r in raws], b"", tail)
            if i % 2:
                s.pid_objects = ("tc-header", "header", "mutated", "from_raw")[(i // 2) % 4]
            n = len(s.data)
            yield s.case_cuts(0, 0, "library-packets")
            yield s.case_cuts(1 << 9, 1, "library-packets")          # the cut of tests/ccsds/test_sp_parser.py
            for m in s.marks:
                yield s.case_cuts(1 << (m - 1), 1, "library-packets")
            for _ in range(6):
                cuts = rng.getrandbits(n - 1) & rng.getrandbits(n - 1) & rng.getrandbits(n - 1)
                yield s.case_cuts(cuts, rng.getrandbits(16), "library-packets")


PROP = C13()
