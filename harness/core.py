"""Framework shared by all property checks.

A check run = (1) Lean build + axiom audit of the property's theorems, (2) table sync,
(3) correspondence: generated op cases are executed by the real package (in-process) and by the
compiled Lean driver (the model the theorems are about) and compared, (4) Python-side self checks
(property clauses that are not visible in an op result), (5) failing-input search when anything
differs, (6) evidence. For the properties that own bit-level expressions of the source there is a second
tie (1b): the expressions are re-translated to Lean from the current source (tools/pyexpr2lean.py) and, if
their text changed, the theorems "generated definition = model arithmetic" are re-checked in a scratch
overlay; a theorem that no longer checks is a NOTE and a reason to search harder, not a violation.

Exit codes: 0 property held on everything explored; 1 VIOLATION (line printed); 2 infrastructure.
"""
from __future__ import annotations

import hashlib
import json
import os
import random
import subprocess
import sys
import tempfile
import time
import traceback
from dataclasses import dataclass, field
from typing import Any, Callable, Dict, Iterable, Iterator, List, Optional

VERIF = os.path.dirname(os.path.dirname(os.path.abspath(__file__)))
REPO = os.environ.get("VERIF_REPO", "/repo")
LEAN_DIR = os.path.join(VERIF, "lean")
DRIVER = os.path.join(LEAN_DIR, ".lake", "build", "bin", "spdriver")
# the two overrides exist for campaign tools that run many checks in parallel against scratch copies
EVIDENCE_DIR = os.environ.get("VERIF_EVIDENCE_DIR") or os.path.join(VERIF, "evidence")
REPLAY_DIR = os.environ.get("VERIF_REPLAY_DIR") or os.path.join(VERIF, "replays")
KNOWN_FINDINGS = os.path.join(VERIF, "known_findings.json")

# make sure the working tree of /repo is what gets imported
if sys.path[0] != REPO:
    sys.path.insert(0, REPO)


class InfraError(Exception):
    pass


# --------------------------------------------------------------------------------------------
# canonicalisation of exceptions
# --------------------------------------------------------------------------------------------
DOCUMENTED = {
    "value", "crc", "cfdp_version", "tlv_type", "uslp", "verif_params", "overflow", "file_not_found",
}


def exc_categories(exc: BaseException) -> List[str]:
    """every documented category the exception belongs to (an exception class may be e.g. both a USLP
    error and a ValueError subclass; a refusal counts as the class a property names if it is an
    instance of it)"""
    from spacepackets.ecss.tc import InvalidTcCrc16
    from spacepackets.ecss.tm import InvalidTmCrc16
    from spacepackets.cfdp.exceptions import InvalidCrc, TlvTypeMissmatch
    from spacepackets.cfdp.defs import UnsupportedCfdpVersion
    from spacepackets.ecss.pus_1_verification import InvalidVerifParams
    import spacepackets.uslp.defs as ud

    uslp = tuple(getattr(ud, n) for n in dir(ud) if n.startswith("Uslp") and isinstance(getattr(ud, n), type))
    cats = []
    for cat, classes in (("crc", (InvalidTcCrc16, InvalidTmCrc16, InvalidCrc)), ("cfdp_version", (UnsupportedCfdpVersion,)),
                         ("tlv_type", (TlvTypeMissmatch,)), ("uslp", uslp), ("verif_params", (InvalidVerifParams,)),
                         ("overflow", (OverflowError,)), ("file_not_found", (FileNotFoundError,)), ("value", (ValueError,))):
        if classes and isinstance(exc, classes):
            cats.append(cat)
    return cats


def exc_category(exc: BaseException) -> str:
    import struct as _struct
    _doc = exc_categories(exc)
    if _doc:
        # e.g. an exception class deriving from both ValueError and struct.error is a documented ValueError
        return _doc[0]
    from spacepackets.ecss.tc import InvalidTcCrc16
    from spacepackets.ecss.tm import InvalidTmCrc16
    from spacepackets.cfdp.exceptions import InvalidCrc, TlvTypeMissmatch
    from spacepackets.cfdp.defs import UnsupportedCfdpVersion
    from spacepackets.ecss.pus_1_verification import InvalidVerifParams
    import spacepackets.uslp.defs as ud

    uslp = tuple(
        getattr(ud, n) for n in dir(ud) if n.startswith("Uslp") and isinstance(getattr(ud, n), type)
    )
    if isinstance(exc, (InvalidTcCrc16, InvalidTmCrc16, InvalidCrc)):
        return "crc"
    if isinstance(exc, UnsupportedCfdpVersion):
        return "cfdp_version"
    if isinstance(exc, TlvTypeMissmatch):
        return "tlv_type"
    if isinstance(exc, uslp):
        return "uslp"
    if isinstance(exc, InvalidVerifParams):
        return "verif_params"
    if isinstance(exc, _struct.error):
        return "struct"
    if isinstance(exc, OverflowError):
        return "overflow"
    if isinstance(exc, FileNotFoundError):
        return "file_not_found"
    if isinstance(exc, ValueError):
        return "value"
    if isinstance(exc, TypeError):
        return "type"
    if isinstance(exc, IndexError):
        return "index"
    if isinstance(exc, AttributeError):
        return "attribute"
    if isinstance(exc, KeyError):
        return "key"
    if isinstance(exc, AssertionError):
        return "assertion"
    return "other:" + type(exc).__name__


# --------------------------------------------------------------------------------------------
# cases
# --------------------------------------------------------------------------------------------
@dataclass
class Case:
    """One op line.

    expect:
      'valid'   input inside the property's domain: every compared field must equal the model's
                (the model's output is proved to be what the property prescribes), so a
                difference is a concrete failing input;
      'invalid' input the property says must be refused: acceptance or an undocumented exception
                is a concrete failing input; the documented class is compared only if
                `errclass` is set;
      'any'     arbitrary input: an undocumented exception is a concrete failing input (C10
                clause of the property); an accept/reject difference to the model breaks the
                correspondence and triggers the failing-input search.
    """

    op: Dict[str, Any]
    expect: str = "valid"
    errclass: bool = False
    tag: str = ""
    # restrict comparison to these keys of the ok-payload (None = all keys)
    keys: Optional[List[str]] = None


class SelfCheckFailure(Exception):
    """Raised by an implementation op when a property clause fails on the real code alone."""


@dataclass
class Violation:
    kind: str          # spec_mismatch | accepted_invalid | undocumented_error | self_check | correspondence | proof
    case: Optional[Dict[str, Any]]
    expected: Any
    actual: Any
    note: str = ""
    concrete: bool = True
    expect: str = ""


# --------------------------------------------------------------------------------------------
# property definition
# --------------------------------------------------------------------------------------------
class Prop:
    id: str = ""
    title: str = ""
    lean_modules: List[str] = []     # Props modules audited for this property
    exhaustive_note: str = ""

    def impl_ops(self) -> Dict[str, Callable[[Dict[str, Any]], Any]]:
        raise NotImplementedError

    def cases(self, rng: random.Random, tier: str) -> Iterator[Case]:
        raise NotImplementedError

    def table_sync(self) -> List[str]:
        """return a list of differences between constants hard-coded in the model and the live module"""
        return []

    def nontrivial(self, case: Case) -> bool:
        return True

    def neighbours(self, case: Case, rng: random.Random) -> Iterator[Case]:
        return iter(())

    trusted_base: List[str] = []
    assumptions: List[str] = []


# --------------------------------------------------------------------------------------------
# running
# --------------------------------------------------------------------------------------------
def run_impl(ops: Dict[str, Callable], case: Case) -> Dict[str, Any]:
    fn = ops.get(case.op["op"])
    if fn is None:
        raise InfraError(f"no implementation op {case.op['op']}")
    try:
        out = fn(case.op)
        return {"ok": out}
    except SelfCheckFailure as e:
        return {"selfcheck": str(e)}
    except InfraError:
        raise
    except BaseException as e:  # noqa
        cat = exc_category(e)
        r = {"err": cat}
        cats = exc_categories(e)
        if len(cats) > 1:
            r["errs"] = cats
        if cat not in DOCUMENTED:
            r["detail"] = f"{type(e).__name__}: {e}"[:300]
        return r


def run_driver(lines: List[str]) -> List[Dict[str, Any]]:
    if not os.path.exists(DRIVER):
        raise InfraError(f"driver missing: {DRIVER} (run MANIFEST.setup_cmd)")
    with tempfile.NamedTemporaryFile("w", suffix=".jsonl", delete=False, dir=os.path.join(LEAN_DIR, ".lake")) as f:
        for l in lines:
            f.write(l)
            f.write("\n")
        path = f.name
    try:
        with open(path, "rb") as fin:
            p = subprocess.run([DRIVER], stdin=fin, stdout=subprocess.PIPE, stderr=subprocess.PIPE, timeout=3600)
    finally:
        os.unlink(path)
    if p.returncode != 0:
        raise InfraError(f"driver exit {p.returncode}: {p.stderr.decode()[:500]}")
    out = p.stdout.decode().split("\n")
    if out and out[-1] == "":
        out.pop()
    if len(out) != len(lines):
        raise InfraError(f"driver returned {len(out)} lines for {len(lines)} inputs")
    res = []
    for i, l in enumerate(out):
        r = json.loads(l)
        # {"bad": ...}: the model op could not make sense of the line. Inputs are partly derived from the
        # implementation under test (packed octets, decoded fields), so this is reported per case as a broken
        # correspondence (see compare), not as an infrastructure failure of the whole run.
        res.append(r)
    return res


def restrict(payload: Any, keys: Optional[List[str]]) -> Any:
    if keys is None or not isinstance(payload, dict):
        return payload
    return {k: payload.get(k) for k in keys}


def compare(case: Case, impl: Dict[str, Any], model: Dict[str, Any]) -> Optional[Violation]:
    """returns a Violation or None. `concrete` says whether the case itself is a failing input."""
    op = case.op
    if "bad" in model:
        return Violation("correspondence", op, model, impl, concrete=False, expect=case.expect,
                         note="the model op cannot evaluate this line (it was derived from implementation output): "
                              + str(model["bad"])[:300])
    if "selfcheck" in impl:
        return Violation("self_check", op, "property clause holds", impl["selfcheck"], expect=case.expect)
    impl_ok = "ok" in impl
    model_ok = "ok" in model
    if not impl_ok and impl["err"] not in DOCUMENTED:
        # undocumented exception escaping: concrete for every expectation class
        return Violation("undocumented_error", op, model, impl,
                         note="undocumented exception class escapes from a public entry point",
                         expect=case.expect)
    if case.expect == "valid":
        if not model_ok:
            # the generator builds some 'valid' inputs with the implementation (pack, then decode): a model
            # refusal then means the implementation produced something outside the property's domain
            return Violation("correspondence", op, model, impl, concrete=False, expect=case.expect,
                             note="an input generated as valid (possibly derived from implementation output) is refused by the model")
        if not impl_ok:
            return Violation("spec_mismatch", op, model, impl,
                             note="valid input rejected by the implementation", expect=case.expect)
        a, b = restrict(impl["ok"], case.keys), restrict(model["ok"], case.keys)
        if a != b:
            diff = sorted(k for k in set(a) | set(b) if a.get(k) != b.get(k)) if isinstance(a, dict) and isinstance(b, dict) else []
            return Violation("spec_mismatch", op, model, impl,
                             note=f"fields differing from the proved model output: {diff}", expect=case.expect)
        return None
    if case.expect == "invalid":
        if model_ok:
            return Violation("correspondence", op, model, impl, concrete=False, expect=case.expect,
                             note="an input generated as must-be-refused (possibly derived from implementation output) is accepted by the model")
        if impl_ok:
            return Violation("accepted_invalid", op, model, impl,
                             note="input that must be refused was accepted", expect=case.expect)
        if case.errclass and model["err"] not in impl.get("errs", [impl["err"]]):
            return Violation("spec_mismatch", op, model, impl,
                             note="refused with a different error class than the property names", expect=case.expect)
        return None
    # 'any'
    if impl_ok != model_ok:
        return Violation("correspondence", op, model, impl, concrete=False,
                         note="accept/reject verdict differs between model and implementation", expect=case.expect)
    if impl_ok:
        a, b = restrict(impl["ok"], case.keys), restrict(model["ok"], case.keys)
        if a != b:
            return Violation("correspondence", op, model, impl, concrete=False,
                             note="decoded values differ between model and implementation", expect=case.expect)
    elif case.errclass and model["err"] not in impl.get("errs", [impl["err"]]):
        return Violation("correspondence", op, model, impl, concrete=False,
                         note="error class differs", expect=case.expect)
    return None


# --------------------------------------------------------------------------------------------
# Lean build + audit
# --------------------------------------------------------------------------------------------
ALLOWED_AXIOMS = {"propext", "Classical.choice", "Quot.sound"}
FORBIDDEN_TOKENS = ["sorry", "admit", "native_decide", "bv_decide", "implemented_by", "unsafe ", "maxHeartbeats 0"]


def _strip_comments(src: str) -> str:
    out = []
    i = 0
    depth = 0
    n = len(src)
    while i < n:
        if src.startswith("/-", i):
            depth += 1
            i += 2
            continue
        if depth > 0 and src.startswith("-/", i):
            depth -= 1
            i += 2
            continue
        if depth == 0 and src.startswith("--", i):
            j = src.find("\n", i)
            i = n if j < 0 else j
            continue
        if depth == 0:
            out.append(src[i])
        i += 1
    return "".join(out)


# --------------------------------------------------------------------------------------------
# second tie: source expressions translated to Lean on every run (tools/pyexpr2lean.py) and proved equal
# to the model's arithmetic (lean/SpVerif/Proofs/GeneratedBits.lean)
# --------------------------------------------------------------------------------------------
TRANSLATOR = os.path.join(VERIF, "tools", "pyexpr2lean.py")
GENERATED_LEAN = os.path.join(LEAN_DIR, "SpVerif", "Generated", "Bits.lean")
GENERATED_SIDECAR = os.path.join(LEAN_DIR, "SpVerif", "Generated", "Bits.json")
GENERATED_PROOFS = os.path.join(LEAN_DIR, "SpVerif", "Proofs", "GeneratedBits.lean")


def _generated_defs(text: str) -> Dict[str, str]:
    """name -> text of every `def` of a generated file (doc comments, which carry line numbers, stripped)"""
    import re
    src = _strip_comments(text)
    out: Dict[str, str] = {}
    parts = re.split(r"(?m)^def\s+", src)
    for p in parts[1:]:
        m = re.match(r"(\w+)", p)
        if m:
            body = re.split(r"(?m)^end\s", p)[0]
            out[m.group(1)] = " ".join(body.split())
    return out


def _lean_errors(output: str, fname: str) -> List[Dict[str, Any]]:
    """[{line, text}] for every `<fname>:<line>:<col>: error` of a lean run (text = message head)"""
    import re
    errs: List[Dict[str, Any]] = []
    cur = None
    for ln in output.split("\n"):
        m = re.match(r"^(\S+?):(\d+):(\d+): (error|warning)[^:]*: ?(.*)$", ln)
        if m:
            cur = None
            if m.group(4) == "error" and os.path.basename(m.group(1)) == fname:
                cur = {"line": int(m.group(2)), "text": m.group(5)}
                errs.append(cur)
        elif cur is not None and len(cur["text"]) < 400:
            cur["text"] += " " + ln.strip()
    for e in errs:
        e["text"] = " ".join(e["text"].split())[:300]
    return errs


def check_translated_expressions(prop: Prop) -> Dict[str, Any]:
    """Regenerates the Lean text of the source expressions owned by `prop` from the current REPO. If the
    text of an owned definition (or of one it calls) changed, the generated file and the equality proofs are
    re-checked in a scratch overlay of the build tree (nothing inside the worktree is written). Must run
    after a successful `lake build` (the overlay links to the compiled models).
    Returns {'expressions': [...], 'broken': [{name, file, line, source, theorem, reason}], ...}."""
    import re
    import shutil

    res: Dict[str, Any] = {"expressions": [], "broken": [], "translator_s": 0.0, "recheck_s": 0.0, "rechecked": False}
    try:
        committed_side = json.load(open(GENERATED_SIDECAR))
        committed_text = open(GENERATED_LEAN, encoding="utf-8").read()
    except (OSError, ValueError):
        return res
    owned_committed = [e for e in committed_side if prop.id in e.get("owners", [])]
    if not owned_committed:
        return res
    owned_names = {e["name"] for e in owned_committed}
    tmp = tempfile.mkdtemp(prefix="spverif-tr-")
    try:
        t0 = time.time()
        out_lean = os.path.join(tmp, "src", "SpVerif", "Generated", "Bits.lean")
        os.makedirs(os.path.dirname(out_lean))
        report = os.path.join(tmp, "report.json")
        p = subprocess.run([sys.executable, TRANSLATOR, "--repo", REPO, "--out", out_lean, "--sidecar",
                            os.path.join(tmp, "Bits.json"), "--keep-going", "--report", report],
                           stdout=subprocess.PIPE, stderr=subprocess.PIPE, timeout=300)
        res["translator_s"] = round(time.time() - t0, 2)

        def broken(e: Dict[str, Any], reason: str):
            if not any(b["name"] == e["name"] for b in res["broken"]):
                res["broken"].append({"name": e["name"], "file": e.get("file"), "line": e.get("line"),
                                      "source": e.get("source"), "theorem": e.get("theorem"), "reason": reason[:400]})

        if p.returncode not in (0, 1) or not os.path.exists(report) or not os.path.exists(out_lean):
            for e in owned_committed:
                broken(e, "the translator did not run: " + p.stderr.decode()[-300:])
            return res
        rep = json.load(open(report))
        new_side = json.load(open(os.path.join(tmp, "Bits.json")))
        new_text = open(out_lean, encoding="utf-8").read()
        res["expressions"] = [{k: e[k] for k in ("name", "file", "line", "source", "theorem")}
                              for e in new_side if e["name"] in owned_names]
        for f in rep.get("failed", []):
            if f["name"] in owned_names:
                broken(f, "the source expression can no longer be located / translated: " + str(f.get("reason")))
        old_defs, new_defs = _generated_defs(committed_text), _generated_defs(new_text)
        affected = {n for n in set(old_defs) | set(new_defs) if old_defs.get(n) != new_defs.get(n)}
        grew = True
        while grew:   # a definition that calls an affected one is affected
            grew = False
            for n, body in new_defs.items():
                if n not in affected and any(re.search(r"\b" + re.escape(a) + r"\b", body) for a in affected):
                    affected.add(n)
                    grew = True
        todo = (affected & owned_names) - {b["name"] for b in res["broken"]}
        if not todo:
            return res
        # scratch overlay: every compiled module of the library except the generated one
        t1 = time.time()
        res["rechecked"] = True
        lib = os.path.join(LEAN_DIR, ".lake", "build", "lib", "lean", "SpVerif")
        olib = os.path.join(tmp, "lib", "SpVerif")
        os.makedirs(os.path.join(olib, "Generated"))
        for fn in os.listdir(lib):
            if fn != "Generated":
                os.symlink(os.path.join(lib, fn), os.path.join(olib, fn))
        libdir = subprocess.run(["lean", "--print-libdir"], stdout=subprocess.PIPE, timeout=60).stdout.decode().strip()
        env = dict(os.environ)
        env["LEAN_PATH"] = os.path.join(tmp, "lib") + os.pathsep + libdir
        src_root = os.path.join(tmp, "src")
        os.makedirs(os.path.join(src_root, "SpVerif", "Proofs"))
        shutil.copy(GENERATED_PROOFS, os.path.join(src_root, "SpVerif", "Proofs", "GeneratedBits.lean"))
        by_name = {e["name"]: e for e in new_side}
        p1 = subprocess.run(["lean", "-o", os.path.join(olib, "Generated", "Bits.olean"), "SpVerif/Generated/Bits.lean"],
                            cwd=src_root, env=env, stdout=subprocess.PIPE, stderr=subprocess.STDOUT, timeout=600)
        if p1.returncode != 0:
            head = " ".join(p1.stdout.decode().split())[:300]
            for n in sorted(todo):
                broken(by_name.get(n, {"name": n}), "the regenerated definitions do not compile: " + head)
            res["recheck_s"] = round(time.time() - t1, 2)
            return res
        p2 = subprocess.run(["lean", "SpVerif/Proofs/GeneratedBits.lean"], cwd=src_root, env=env,
                            stdout=subprocess.PIPE, stderr=subprocess.STDOUT, timeout=1200)
        res["recheck_s"] = round(time.time() - t1, 2)
        out2 = p2.stdout.decode()
        errs = _lean_errors(out2, "GeneratedBits.lean")
        if p2.returncode != 0 and not errs:
            errs = [{"line": 0, "text": " ".join(out2.split())[:300]}]
        if errs:
            plines = open(GENERATED_PROOFS, encoding="utf-8").read().split("\n")
            starts = [(i + 1, m.group(1)) for i, l in enumerate(plines) for m in [re.match(r"^theorem\s+(\w+)", l)] if m]
            all_names = sorted(new_defs, key=len, reverse=True)
            for er in errs:
                idx = max([k for k, (ln, _) in enumerate(starts) if ln <= er["line"]], default=None)
                hit: List[str] = []
                if idx is not None:
                    thm = starts[idx][1]
                    end = starts[idx + 1][0] - 1 if idx + 1 < len(starts) else len(plines)
                    block = "\n".join(plines[starts[idx][0] - 1:end])
                    own = next((n for n in all_names if thm.startswith(n + "_")), None)
                    if own is not None:
                        hit.append(own)
                    hit += [n for n in sorted(affected) if n not in hit and re.search(r"\b" + re.escape(n) + r"\b", block)]
                    where = f"theorem Generated.{thm} (GeneratedBits.lean:{er['line']}): "
                else:
                    hit = sorted(todo)
                    where = f"GeneratedBits.lean:{er['line']}: "
                for n in hit:
                    if n in owned_names:
                        broken(by_name.get(n, {"name": n}), where + er["text"])
        return res
    finally:
        shutil.rmtree(tmp, ignore_errors=True)


def lean_build_and_audit(prop: Prop, tier: str = "quick") -> Dict[str, Any]:
    """returns {'theorems': [...], 'axioms': {...}, 'problems': [...], 'translated_expressions': [...],
    'translation_broken': [...]}"""
    audit = _lean_build_and_audit(prop, tier)
    audit.setdefault("translated_expressions", [])
    audit.setdefault("translation_broken", [])
    if not any("lake build failed" in p for p in audit["problems"]):
        tr = check_translated_expressions(prop)
        audit["translated_expressions"] = tr["expressions"]
        audit["translation_broken"] = tr["broken"]
        audit["translation_timing"] = {k: tr[k] for k in ("translator_s", "recheck_s", "rechecked")}
    return audit


def _lean_build_and_audit(prop: Prop, tier: str = "quick") -> Dict[str, Any]:
    import fcntl
    import re

    problems: List[str] = []
    lock = open(os.path.join(LEAN_DIR, ".build.lock"), "w")
    fcntl.flock(lock, fcntl.LOCK_EX)
    try:
        t0 = time.time()
        p = subprocess.run(["lake", "build", "SpVerif", "spdriver"], cwd=LEAN_DIR, stdout=subprocess.PIPE,
                           stderr=subprocess.STDOUT, timeout=3000)
        build_s = time.time() - t0
        if p.returncode != 0:
            problems.append("lake build failed: " + p.stdout.decode()[-1500:])
            return {"theorems": [], "axioms": {}, "problems": problems, "build_s": build_s}
    finally:
        fcntl.flock(lock, fcntl.LOCK_UN)
        lock.close()
    # forbidden tokens anywhere in the library (comments stripped)
    for root, _, files in os.walk(os.path.join(LEAN_DIR, "SpVerif")):
        for fn in files:
            if fn.endswith(".lean"):
                src = _strip_comments(open(os.path.join(root, fn)).read())
                for tok in FORBIDDEN_TOKENS:
                    if tok in src:
                        problems.append(f"forbidden token '{tok.strip()}' in {fn}")
                if re.search(r"(?m)^\s*axiom\s", src):
                    problems.append(f"axiom declaration in {fn}")
    theorems: List[str] = []
    lines = []
    for mod in prop.lean_modules:
        path = os.path.join(LEAN_DIR, *mod.split(".")) + ".lean"
        src = _strip_comments(open(path).read())
        ns = re.search(r"(?m)^namespace\s+(\S+)", src)
        nsname = ns.group(1) if ns else ""
        names = re.findall(r"(?m)^theorem\s+(" + prop.id + r"_\w+)", src)
        lines.append(f"import {mod}")
        for nme in names:
            theorems.append(f"{nsname}.{nme}" if nsname else nme)
    if not theorems:
        problems.append("no property theorems found")
        return {"theorems": [], "axioms": {}, "problems": problems, "build_s": build_s}
    body = "\n".join(lines) + "\n" + "\n".join(f"#print axioms {t}" for t in theorems) + "\n"
    with tempfile.NamedTemporaryFile("w", suffix=".lean", delete=False, dir=os.path.join(LEAN_DIR, ".lake")) as f:
        f.write(body)
        apath = f.name
    try:
        p = subprocess.run(["lake", "env", "lean", apath], cwd=LEAN_DIR, stdout=subprocess.PIPE,
                           stderr=subprocess.STDOUT, timeout=1200)
    finally:
        os.unlink(apath)
    out = p.stdout.decode()
    if p.returncode != 0:
        problems.append("axiom audit failed: " + out[-1500:])
    axioms: Dict[str, List[str]] = {}
    # output format: 'Name' depends on axioms: [a, b]   |   'Name' does not depend on any axioms
    flat = out.replace("\n", " ")
    for t in theorems:
        m = re.search(r"'" + re.escape(t) + r"' depends on axioms: \[([^\]]*)\]", flat)
        if m:
            axs = [a.strip() for a in m.group(1).split(",") if a.strip()]
        elif re.search(r"'" + re.escape(t) + r"' does not depend on any axioms", flat):
            axs = []
        else:
            problems.append(f"no axiom report for {t}")
            continue
        axioms[t] = axs
        bad = [a for a in axs if a not in ALLOWED_AXIOMS]
        if bad:
            problems.append(f"{t} depends on non-standard axioms {bad}")
    recheck = None
    if tier == "thorough" and not problems:
        # independent re-check of the compiled modules by the toolchain's external checker
        t1 = time.time()
        p = subprocess.run(["lake", "env", "leanchecker"] + list(prop.lean_modules), cwd=LEAN_DIR,
                           stdout=subprocess.PIPE, stderr=subprocess.STDOUT, timeout=3000)
        recheck = {"cmd": "lake env leanchecker " + " ".join(prop.lean_modules), "rc": p.returncode,
                   "wall_s": round(time.time() - t1, 2)}
        if p.returncode != 0:
            problems.append("leanchecker rejected the compiled modules: " + p.stdout.decode()[-800:])
    return {"theorems": theorems, "axioms": axioms, "problems": problems, "build_s": build_s, "leanchecker": recheck}


# --------------------------------------------------------------------------------------------
# known findings
# --------------------------------------------------------------------------------------------
def load_known() -> List[Dict[str, Any]]:
    if not os.path.exists(KNOWN_FINDINGS):
        return []
    data = json.load(open(KNOWN_FINDINGS))
    return [e for e in data.get("entries", []) if e.get("status") == "open"]


def matches_known(entry: Dict[str, Any], prop_id: str, v: Violation) -> bool:
    if entry.get("property") != prop_id:
        return False
    m = entry.get("match", {})
    if v.case is None:
        return False
    return all(v.case.get(k) == val for k, val in m.items())


# --------------------------------------------------------------------------------------------
# main entry
# --------------------------------------------------------------------------------------------
def case_key(c: Case) -> str:
    return json.dumps(c.op, sort_keys=True)


def evaluate(prop: Prop, cases: List[Case]) -> (List[Violation], List[Dict[str, Any]], List[Dict[str, Any]]):
    ops = prop.impl_ops()
    impl_res = [run_impl(ops, c) for c in cases]
    lines = [json.dumps(c.op) for c in cases]
    model_res = run_driver(lines)
    viols = []
    for c, a, b in zip(cases, impl_res, model_res):
        v = compare(c, a, b)
        if v is not None:
            viols.append(v)
    return viols, impl_res, model_res


def collect_cases(prop: Prop, rng: random.Random, tier: str) -> (List[Case], Optional[str]):
    """Runs the generator. Generators derive some inputs from the real implementation (e.g. pack a
    valid packet, then truncate it); when the implementation under test refuses such an input the
    generator itself raises. That is not an infrastructure problem: the cases produced so far are
    evaluated (the generators emit the direct case before deriving others from it) and the
    exception is reported as a broken correspondence if nothing concrete is found."""
    out: List[Case] = []
    try:
        for c in prop.cases(rng, tier):
            out.append(c)
    except InfraError:
        raise
    except BaseException as e:  # noqa
        tb = traceback.extract_tb(e.__traceback__)
        inside = [f for f in tb if os.path.abspath(f.filename).startswith(os.path.abspath(REPO))]
        where = f"{inside[-1].filename}:{inside[-1].lineno} in {inside[-1].name}" if inside else "harness generator"
        if not inside:
            raise
        return out, f"{type(e).__name__}: {str(e)[:200]} (raised at {where} while the generator derived inputs from the implementation)"
    return out, None


def write_replay(prop_id: str, seed: int, n: int, v: Violation, extra: Dict[str, Any]) -> str:
    os.makedirs(REPLAY_DIR, exist_ok=True)
    path = os.path.join(REPLAY_DIR, f"{prop_id}-{seed}-{n}.json")
    doc = {
        "property": prop_id,
        "kind": v.kind,
        "concrete_failing_input": v.concrete,
        "case": v.case,
        "expect": v.expect,
        "expected_model_output": v.expected,
        "actual_implementation_output": v.actual,
        "note": v.note,
        "how_to_replay": f"/venv/bin/python harness/check.py {prop_id} --replay {os.path.relpath(path, VERIF)}",
    }
    doc.update(extra)
    with open(path, "w") as f:
        json.dump(doc, f, indent=1, sort_keys=True)
    return os.path.relpath(path, VERIF)


def shrink_case(prop: Prop, c: Case, kind: str) -> Case:
    """greedy minimisation: shorten hex strings, lower integers, while the same kind of violation persists"""
    ops = prop.impl_ops()

    def still(c2: Case) -> bool:
        try:
            a = run_impl(ops, c2)
            b = run_driver([json.dumps(c2.op)])[0]
            v = compare(c2, a, b)
            return v is not None and v.kind == kind
        except InfraError:
            return False

    cur = c
    budget = 60
    t_end = time.time() + 45.0      # a failing case that takes a minute per evaluation is reported unshrunk
    changed = True
    while changed and budget > 0 and time.time() < t_end:
        changed = False
        for k, val in list(cur.op.items()):
            if budget <= 0:
                break
            if k == "op":
                continue
            cands = []
            if isinstance(val, str) and len(val) >= 2 and all(ch in "0123456789abcdef" for ch in val):
                n = len(val) // 2
                if n > 0:
                    cands.append(val[: (n // 2) * 2])
                    cands.append(val[:-2])
                    if val.strip("0"):
                        cands.append("00" * n)
            elif isinstance(val, bool):
                pass
            elif isinstance(val, int) and val > 0:
                cands += [0, val // 2, val - 1]
            for cand in cands:
                if cand == val or time.time() > t_end:
                    continue
                op2 = dict(cur.op)
                op2[k] = cand
                c2 = Case(op2, cur.expect, cur.errclass, cur.tag, cur.keys)
                budget -= 1
                if still(c2):
                    cur = c2
                    changed = True
                    break
    return cur


def main_check(prop: Prop, argv: List[str]) -> int:
    import argparse

    ap = argparse.ArgumentParser()
    ap.add_argument("--tier", default=os.environ.get("VERIF_TIER", "quick"), choices=["quick", "thorough"])
    ap.add_argument("--replay", default=None)
    args = ap.parse_args(argv)
    seed = int(os.environ.get("VERIF_SEED", "0"))
    t0 = time.time()
    try:
        if args.replay:
            return do_replay(prop, args.replay)
        return do_check(prop, args.tier, seed, t0)
    except InfraError as e:
        print(f"INFRA-ERROR property={prop.id}: {e}")
        return 2
    except Exception:
        traceback.print_exc()
        print(f"INFRA-ERROR property={prop.id}: unexpected exception in the harness")
        return 2


def do_replay(prop: Prop, path: str) -> int:
    if not os.path.isabs(path):
        path = os.path.join(VERIF, path)
    doc = json.load(open(path))
    if doc.get("case") is None:
        print(f"replay {path}: no concrete case recorded ({doc.get('kind')}): {doc.get('note')}")
        audit = lean_build_and_audit(prop)
        if audit["problems"]:
            print(f"VIOLATION property={prop.id} replay={os.path.relpath(path, VERIF)} no-failing-input-found")
            return 1
        return 0
    c = Case(doc["case"], doc.get("expect", "valid"), errclass=doc.get("errclass", False), keys=doc.get("keys"))
    ops = prop.impl_ops()
    a = run_impl(ops, c)
    b = run_driver([json.dumps(c.op)])[0]
    v = compare(c, a, b)
    print("case:", json.dumps(c.op))
    print("implementation:", json.dumps(a))
    print("model:", json.dumps(b))
    if v is None:
        print("replay: no violation on the current tree")
        return 0
    tail = "" if v.concrete else " no-failing-input-found"
    print(f"VIOLATION property={prop.id} replay={os.path.relpath(path, VERIF)}{tail}")
    return 1


def do_check(prop: Prop, tier: str, seed: int, t0: float) -> int:
    rng = random.Random((seed * 1000003) ^ int(hashlib.sha256(prop.id.encode()).hexdigest()[:8], 16))
    known = load_known()
    # 1. proofs
    audit = lean_build_and_audit(prop, tier)
    # 2. table sync (an exception raised INSIDE the implementation while its tables / helpers are read is a difference
    #    between the tables, not an infrastructure problem: e.g. a helper that now refuses one value of its domain)
    try:
        sync_diffs = prop.table_sync()
    except InfraError:
        raise
    except Exception as e:  # noqa
        tb = traceback.extract_tb(e.__traceback__)
        inside = [f for f in tb if os.path.abspath(f.filename).startswith(os.path.abspath(REPO))]
        if not inside:
            raise
        sync_diffs = [f"table-sync: the implementation raised {type(e).__name__}: {str(e)[:200]} at "
                      f"{os.path.relpath(inside[-1].filename, REPO)}:{inside[-1].lineno} in {inside[-1].name} while its constants / "
                      f"helpers were compared with the model's tables"]
    # 3. correspondence
    cases, gen_error = collect_cases(prop, rng, tier)
    viols, impl_res, model_res = evaluate(prop, cases)
    viols += cold_start_sample(prop, cases, impl_res, 6 if tier == "quick" else 40, model_res)   # (appended section COLD START)
    # distribution
    dist: Dict[str, int] = {}
    verdicts: Dict[str, int] = {}
    seen = set()
    nontrivial = 0
    for c, a in zip(cases, impl_res):
        key = f"{c.op['op']}|{c.expect}|{c.tag}"
        dist[key] = dist.get(key, 0) + 1
        vk = "ok" if "ok" in a else ("selfcheck" if "selfcheck" in a else "err:" + a["err"])
        verdicts[vk] = verdicts.get(vk, 0) + 1
        k = case_key(c)
        if k not in seen:
            seen.add(k)
            if prop.nontrivial(c):
                nontrivial += 1
    # 4. failing-input search when only non-concrete differences or proof problems exist
    concrete = [v for v in viols if v.concrete]
    nonconcrete = [v for v in viols if not v.concrete]
    searched = 0
    # a translated source expression that is no longer proved equal to the model is not a proof problem of the
    # property (its theorems are about the model, and the correspondence ties the model to the code); it is a
    # reason to look harder for a disagreement
    tr_broken = audit.get("translation_broken") or []
    for b in tr_broken:
        print(f"NOTE property={prop.id} translated expression {b['name']} ({b.get('file')}:{b.get('line')}) no longer proved "
              f"equal to the model ({b.get('reason')}); equivalence is now carried by the exhaustive correspondence only")
    if (nonconcrete or audit["problems"] or sync_diffs or gen_error or tr_broken) and not concrete:
        extra_cases: List[Case] = []
        for v in nonconcrete[:20]:
            base = next((c for c in cases if c.op == v.case), None)
            if base is not None:
                extra_cases += list(prop.neighbours(base, rng))
        for s2 in range(1, 4 if tier == "quick" else 8):
            r2 = random.Random(rng.random() + s2)
            extra_cases += collect_cases(prop, r2, tier)[0]
        searched = len(extra_cases)
        if extra_cases:
            v2, _, _ = evaluate(prop, extra_cases)
            concrete = [v for v in v2 if v.concrete]
    # 5. report
    reported: List[str] = []
    n_viol = 0
    rc = 0
    common = {"tier": tier, "seed": seed}

    def report(v: Violation, n: int):
        nonlocal rc, n_viol
        for e in known:
            if matches_known(e, prop.id, v):
                print(f"KNOWN-FINDING: property={prop.id} {e.get('what', '')}")
                return
        path = write_replay(prop.id, seed, n, v, common)
        tail = "" if v.concrete else " no-failing-input-found"
        print(f"VIOLATION property={prop.id} replay={path}{tail}")
        print(f"  kind={v.kind} note={v.note}")
        print(f"  case={json.dumps(v.case)[:400]}")
        print(f"  model={json.dumps(v.expected)[:300]}")
        print(f"  impl ={json.dumps(v.actual)[:300]}")
        reported.append(path)
        n_viol += 1
        rc = 1

    if concrete:
        # group by (kind, op) and report the first (shrunk) of each group, at most 5
        groups: Dict[str, Violation] = {}
        for v in concrete:
            g = f"{v.kind}|{v.case.get('op') if v.case else ''}"
            groups.setdefault(g, v)
        for n, v in enumerate(list(groups.values())[:5]):
            base = next((c for c in cases if c.op == v.case), None)
            if base is not None:
                try:
                    sc = shrink_case(prop, base, v.kind)
                    a = run_impl(prop.impl_ops(), sc)
                    b = run_driver([json.dumps(sc.op)])[0]
                    v_s = compare(sc, a, b)
                    if v_s is not None:
                        v = v_s
                except InfraError:
                    pass
            report(v, n)
    elif nonconcrete or audit["problems"] or sync_diffs or gen_error:
        if gen_error and not nonconcrete:
            report(Violation("correspondence", None, None, gen_error, concrete=False,
                             note="the implementation refused an input the generator derives further cases from: " + gen_error), 0)
        elif nonconcrete:
            v = nonconcrete[0]
            v.note += f" | correspondence no longer checks for op {v.case.get('op')}; {len(nonconcrete)} differing lines; failing-input search over {searched} further cases found no property failure"
            report(v, 0)
        elif sync_diffs:
            report(Violation("correspondence", None, None, sync_diffs[:10], concrete=False,
                             note="table sync: constants hard-coded in the model differ from the live module: " + "; ".join(sync_diffs[:10])), 0)
        else:
            report(Violation("proof", None, None, audit["problems"], concrete=False,
                             note="theorem(s) of this property no longer check: " + "; ".join(audit["problems"])[:1500]), 0)
    # 6. evidence
    samples = []
    step = max(1, len(cases) // 6)
    for i in range(0, len(cases), step):
        samples.append({"case": cases[i].op, "expect": cases[i].expect, "implementation": impl_res[i], "model": model_res[i]})
        if len(samples) >= 8:
            break
    obligations = len(audit["theorems"])
    discharged = sum(1 for t in audit["theorems"] if t in audit["axioms"] and all(a in ALLOWED_AXIOMS for a in audit["axioms"][t]))
    if audit["problems"] and any("lake build failed" in p or "forbidden token" in p or "axiom declaration" in p for p in audit["problems"]):
        discharged = 0
    ev = {
        "property_id": prop.id,
        "tier": tier,
        "seed": seed,
        "level": "proof",
        "coverage": {
            "obligations": obligations,
            "discharged": discharged,
            "checker_cmd": "cd lean && lake build SpVerif spdriver && lake env lean <generated #print axioms file>  (run by harness/core.py:lean_build_and_audit on every check; for properties owning translated expressions also tools/pyexpr2lean.py --repo <repo> and, if the generated text changed, lean SpVerif/Generated/Bits.lean + SpVerif/Proofs/GeneratedBits.lean in a scratch overlay)",
            "trusted_base": [
                "Lean 4.33.0 kernel and elaborator",
                "axioms allowed: propext, Classical.choice, Quot.sound (audited per theorem on every run)",
                "hand-written model tied to /repo by the correspondence check in this run (differential: real package in-process vs compiled Lean driver executing the model definitions)",
                "Lean compiler/runtime executing the model in the driver",
                "CPython, struct, enum (modelled, not verified)",
            ] + (["tools/pyexpr2lean.py (Python ast -> Lean Nat definitions of the shift/mask expressions listed under "
                  "translated_expressions, regenerated from the current source in this run; the theorems "
                  "Generated.<name>_eq prove them equal to the model's arithmetic) — a second tie next to the "
                  "correspondence check; trusted: the translator's rendering of Python int operators on Nat"]
                 if audit.get("translated_expressions") or tr_broken else []) + list(prop.trusted_base),
            "theorems": audit["theorems"],
            "axioms_per_theorem": audit["axioms"],
            "proof_problems": audit["problems"],
            "translated_expressions": audit.get("translated_expressions", []),
            "translated_expressions_broken": tr_broken,
            "translated_expressions_timing": audit.get("translation_timing"),
            "lean_build_s": round(audit.get("build_s", 0.0), 2),
            "leanchecker": audit.get("leanchecker"),
            "evaluations": len(cases),
            "distinct_nontrivial": nontrivial,
            "rule": "cases come from the structured generator of harness/props/" + prop.id.lower() + ".py seeded by VERIF_SEED (boundary pools, exhaustive sub-domains, malformed stream); distinct = distinct canonical op lines; non-trivial = Prop.nontrivial (not the all-default/zero case)",
            "traces_validated_against_impl": len(cases),
            "exhaustive": bool(prop.exhaustive_note),
            "exhaustive_note": prop.exhaustive_note,
            "distribution_by_op_expect_tag": dist,
            "implementation_verdicts": verdicts,
            "failing_input_search_cases": searched,
            "table_sync_differences": sync_diffs,
            "generator_error": gen_error,
            "samples": samples,
        },
        "assumptions": list(prop.assumptions),
        "wall_s": round(time.time() - t0, 2),
        "violations": n_viol,
    }
    os.makedirs(EVIDENCE_DIR, exist_ok=True)
    with open(os.path.join(EVIDENCE_DIR, f"{prop.id}.json"), "w") as f:
        json.dump(ev, f, indent=1, sort_keys=True)
    print(f"{prop.id} tier={tier} seed={seed}: theorems {discharged}/{obligations}, cases {len(cases)} "
          f"(distinct non-trivial {nontrivial}), violations {n_viol}, {ev['wall_s']} s")
    return rc


# --------------------------------------------------------------------------------------------
# probes for state that leaks between calls or objects (used by the implementation ops)
# --------------------------------------------------------------------------------------------
def pack_stable(obj: Any, what: str = "pack()", packer: Optional[Callable[[], Any]] = None) -> bytes:
    """`obj.pack()` as octets, with the repeatability clause checked on the real code: the octets of a
    second call equal those of the first even after the caller has scribbled over the buffer the first
    call returned (an encoder that hands out its internal cache would otherwise change its own result).
    Raises SelfCheckFailure; exceptions of pack() itself propagate unchanged."""
    fn = packer if packer is not None else obj.pack
    first = fn()
    octets = bytes(first)
    if isinstance(first, bytearray):
        # what ordinary packet assembly does with a returned buffer
        first.extend(b"\xde\xad\xbe\xef")
        if len(first) > 4:
            first[0] ^= 0xFF
            first[len(first) // 2] ^= 0xA5
    second = bytes(fn())
    if second != octets:
        raise SelfCheckFailure(f"{what}: a second call returns {second.hex()[:80]} after the caller modified the buffer returned by "
                               f"the first call ({octets.hex()[:80]}): the encoder's result is not a function of the object")
    return octets


class Isolation:
    """Decoded objects must not share state: `check(kind, obj, view)` records `view(obj)` and verifies
    that the object recorded at the previous call for the same kind still shows the view it showed then
    (i.e. decoding this input did not change an object decoded earlier). Also keeps a few older objects."""

    def __init__(self, keep: int = 3):
        self.keep = keep
        self.prev: Dict[str, List[Any]] = {}

    def check(self, kind: str, obj: Any, view: Callable[[Any], Any]) -> Any:
        now = view(obj)
        for (old_obj, old_view) in self.prev.get(kind, []):
            try:
                again = view(old_obj)
            except Exception as e:  # noqa
                raise SelfCheckFailure(f"{kind}: an object decoded earlier can no longer be inspected after a later decode ({type(e).__name__})")
            if again != old_view:
                raise SelfCheckFailure(f"{kind}: an object decoded earlier changed when another input was decoded: "
                                       f"{json.dumps(old_view, sort_keys=True, default=str)[:200]} became {json.dumps(again, sort_keys=True, default=str)[:200]}")
        lst = self.prev.setdefault(kind, [])
        lst.append((obj, now))
        if len(lst) > self.keep:
            lst.pop(0)
        return now


ISOLATION = Isolation()


class Reuse:
    """Realistic reuse of configuration objects: `get(key, make)` returns the same instance for the same
    key for a while (managed-parameter / configuration objects are created once and passed to many
    calls in real programs; a cache hidden inside them that is keyed too coarsely only shows then)."""

    def __init__(self, cap: int = 64):
        self.cap = cap
        self.items: Dict[str, Any] = {}

    def get(self, key: Any, make: Callable[[], Any]) -> Any:
        k = json.dumps(key, sort_keys=True, default=str)
        if k not in self.items:
            if len(self.items) >= self.cap:
                self.items.pop(next(iter(self.items)))
            self.items[k] = make()
        return self.items[k]


REUSE = Reuse()


# --------------------------------------------------------------------------------------------
# CFDP PDUs followed by further octets (C09 clause): both behaviours are right
# --------------------------------------------------------------------------------------------
def cfdp_declared_len(raw: bytes) -> Optional[int]:
    """length the fixed PDU header declares (4 + 2*idw + seqw + data-field length); None if unreadable"""
    if len(raw) < 4:
        return None
    idw, sqw = ((raw[3] >> 4) & 7) + 1, (raw[3] & 7) + 1
    return 4 + 2 * idw + sqw + ((raw[1] << 8) | raw[2])


def cfdp_is_nak(raw: bytes) -> bool:
    if len(raw) < 4 or raw[0] & 0x10:
        return False
    hl = 4 + 2 * (((raw[3] >> 4) & 7) + 1) + ((raw[3] & 7) + 1)
    return len(raw) > hl and raw[hl] == 0x08


def cfdp_tolerant(decode: Callable[[bytes], Any], raw: bytes, refuses: Optional[bool] = None) -> Any:
    """`decode(raw)` under the C09 clause "a complete CFDP PDU followed by further octets is EITHER decoded exactly as
    the PDU alone OR refused with a documented error": whichever of the two the implementation does, the result is
    reported the way the MODEL behaves, so that a decoder may switch between them without an alarm.
      model ignores trailing octets (refuses=False; every kind but NAK): a documented refusal of the longer buffer is
        answered by decoding the declared PDU alone;
      model refuses them (refuses=True; NAK, also through the factory): an implementation that decodes the longer
        buffer must decode it exactly as the PDU alone (checked here) and then counts as the refusal.
    refuses=None: decided from the octets (NAK directive code)."""
    n = cfdp_declared_len(raw)
    longer = n is not None and n < len(raw)
    if refuses is None:
        refuses = cfdp_is_nak(raw)
    try:
        q = decode(raw)
    except SelfCheckFailure:
        raise
    except Exception as e:  # noqa
        if longer and not refuses and exc_categories(e):
            return decode(raw[:n])
        raise
    if longer and refuses and q is not None:
        alone = decode(raw[:n])
        if alone is None or bytes(alone.pack()) != bytes(q.pack()) or not (alone == q):
            raise SelfCheckFailure("octets after the declared PDU change the decoded PDU")
        raise ValueError("(canonicalised) a PDU followed by further octets, decoded as the PDU alone")
    return q


def encoder_failure_is_refusal(fn: Callable) -> Callable:
    """The encoding properties ask of an encoder only that an unencodable parameter set makes it FAIL rather than
    truncate; which class it fails with is not stated (C10 is about decoders). struct.error / OverflowError from an
    encoder op are therefore reported like the ValueError the models show."""
    import struct as _struct

    def wrapped(a):
        try:
            return fn(a)
        except (_struct.error, OverflowError) as e:
            raise ValueError(f"(canonicalised encoder failure) {type(e).__name__}: {e}") from e
    return wrapped


# --------------------------------------------------------------------------------------------
# probes for state that only shows after the APPLICATION did something with what it got back:
# it modified an object a decoder handed out (then decodes again), or a call of an encoder failed
# (then encodes again)
# --------------------------------------------------------------------------------------------
def attempt_all(attempts: Iterable[Callable[[], Any]]) -> int:
    """runs calls that are EXPECTED to fail (an encoder given an unencodable value, a decoder given a cut buffer) the
    way a program does that catches the error and carries on; whatever they do - raise anything, or succeed - is
    ignored. Returns how many raised. What the caller does next (the real pack / decode, compared with the model as
    always) must not be influenced by them: a failed call has no memory."""
    failed = 0
    for f in attempts:
        try:
            f()
        except SelfCheckFailure:
            raise
        except InfraError:
            raise
        except Exception:  # noqa
            failed += 1
    return failed


def tolerant_set(obj: Any, name: str, value: Any) -> bool:
    """`obj.<name> = value` as a step of a mutation probe: a setter that is missing or refuses the value makes the
    probe weaker, never an alarm"""
    try:
        setattr(obj, name, value)
        return True
    except Exception:  # noqa
        return False


def _decode_outcome(decode: Callable[[bytes], Any], buf: bytes, view: Callable[[Any], Any]):
    """(object or None, ('ok', view) | ('refused',)); which class refuses is not part of the outcome"""
    try:
        obj = decode(buf)
    except (SelfCheckFailure, InfraError):
        raise
    except Exception:  # noqa
        return None, ("refused",)
    if obj is None:
        return None, ("ok", None)
    return obj, ("ok", view(obj))


def _short(v: Any) -> str:
    return json.dumps(v, sort_keys=True, default=str)[:240]


def redecode_after_mutation(decode: Callable[[bytes], Any], raw: bytes, view: Callable[[Any], Any],
                            mutate: Callable[[Any], Optional[Callable[[], Any]]], what: str = "decoder",
                            others: Iterable[bytes] = ()) -> None:
    """What a decoder returns is a function of the octets it is given - also after the application has modified an
    object the decoder handed out earlier (a received header turned into the header of the reply, a received PDU
    switched to NO_CRC for forwarding). Self-contained sequence on the real code:
      a = decode(raw); b = decode(raw); every buffer of `others` decoded (a corrupted variant is normally refused);
      mutate(a)  - through the documented public setters / attributes only (use tolerant_set); may return an undo;
      then  view(b) is what it was (two objects decoded from the same octets share nothing),
            decode(raw) shows the view it showed the first time,
            every buffer of `others` is accepted-with-the-same-view / refused exactly as before.
    Nothing happens when `raw` itself is refused. The undo is called at the end whatever the result, so that an
    implementation that does leak the mutation fails on THIS case and not on unrelated later ones.
    Raises SelfCheckFailure."""
    a, first = _decode_outcome(decode, raw, view)
    if a is None:
        return
    b, twin = _decode_outcome(decode, raw, view)
    if twin != first:
        raise SelfCheckFailure(f"{what}: two calls on the same octets {raw.hex()[:120]} give different results: "
                               f"{_short(first)} / {_short(twin)}")
    others = [bytes(o) for o in others]
    before = [_decode_outcome(decode, o, view)[1] for o in others]
    undo = None
    try:
        undo = mutate(a)
    except (SelfCheckFailure, InfraError):
        raise
    except Exception:  # noqa
        pass
    try:
        try:
            again = view(b)
        except (SelfCheckFailure, InfraError):
            raise
        except Exception as e:  # noqa
            raise SelfCheckFailure(f"{what}: an object decoded from {raw.hex()[:120]} can no longer be inspected after ANOTHER "
                                   f"object decoded from the same octets was modified through its setters ({type(e).__name__})")
        if ("ok", again) != first:
            raise SelfCheckFailure(f"{what}: an object decoded from {raw.hex()[:120]} changed when ANOTHER object decoded from the "
                                   f"same octets was modified through its public setters: {_short(first[1])} became {_short(again)}")
        _, third = _decode_outcome(decode, raw, view)
        if third != first:
            raise SelfCheckFailure(f"{what}: the octets {raw.hex()[:120]} are decoded differently after the application modified (public "
                                   f"setters) an object it had decoded from them earlier: {_short(first)} then {_short(third)}")
        for o, was in zip(others, before):
            _, now = _decode_outcome(decode, o, view)
            if now != was:
                raise SelfCheckFailure(f"{what}: the octets {o.hex()[:120]} are {'ACCEPTED' if now[0] == 'ok' else 'refused'} after the "
                                       f"application modified (public setters) an object decoded earlier from {raw.hex()[:120]}; before "
                                       f"that they were {'accepted' if was[0] == 'ok' else 'refused'}: {_short(was)} then {_short(now)}")
    finally:
        if callable(undo):
            try:
                undo()
            except Exception:  # noqa
                pass


# --------------------------------------------------------------------------------------------
# probes for results that alias the caller's INPUT buffer: a receiver decodes out of ONE receive buffer
# (a bytearray it refills for the next packet / PDU / frame); what it decoded earlier are values and must
# not change when the buffer is reused
# --------------------------------------------------------------------------------------------
def accepts_memoryview(fn: Any, param: Optional[str] = None) -> bool:
    """True when the annotations of `fn` (of parameter `param`, or of any parameter) name `memoryview`: only then is a
    memoryview part of the documented input domain (slicing a memoryview yields views, so a decoder that is documented
    for bytes only cannot be expected to detach what it keeps from a memoryview it was never meant to get)"""
    try:
        ann = getattr(fn, "__annotations__", None) or getattr(getattr(fn, "__func__", None), "__annotations__", None) or {}
        items = [ann[param]] if param is not None and param in ann else [v for k, v in ann.items() if k != "return"]
        return any("memoryview" in (v if isinstance(v, str) else repr(v)) for v in items)
    except Exception:  # noqa
        return False


def _clobber_patterns(raw: bytes) -> List[bytes]:
    """same-length replacements for the content of the caller's buffer: every octet complemented (every octet
    differs from what was decoded) and a constant fill"""
    return [bytes(b ^ 0xFF for b in raw), b"\xaa" * len(raw)]


def decode_detached(decode: Callable[[Any], Any], raw: bytes, view: Callable[[Any], Any], what: str = "decoder",
                    expect: Any = None, memview: bool = False) -> Optional[str]:
    """The values a decoder returns are values: they stay what they are when the caller reuses the buffer it decoded
    from. Self-contained sequence on the real code:
        buf = bytearray(raw); obj = decode(buf); v = view(obj)
        buf[:] = <other octets of the same length>     (two patterns, one after the other)
        view(obj) is still v   (and v is `expect`, the view of the object decoded from the immutable octets, if given)
    `view` must turn every observable into plain values (ints, hex strings of `bytes(field)`, `pack()` octets).
    With memview=True the same is done with `decode(memoryview(buf))` (use accepts_memoryview to decide).
    A decoder that REFUSES the bytearray / memoryview (whatever the class) is outside this probe: nothing is reported
    (the type of the container is not part of any property; what is decoded from it is).
    Returns None or a description of the failure (the caller raises SelfCheckFailure)."""
    raw = bytes(raw)
    for kind in (("bytearray", "memoryview") if memview else ("bytearray",)):
        buf = bytearray(raw)
        try:
            obj = decode(buf if kind == "bytearray" else memoryview(buf))
        except (SelfCheckFailure, InfraError):
            raise
        except Exception:  # noqa
            continue
        if obj is None:
            continue
        try:
            v0 = view(obj)
        except (SelfCheckFailure, InfraError):
            raise
        except Exception:  # noqa
            continue        # (whatever makes the view fail is the business of the op's own checks on the bytes input)
        if bytes(buf) != raw:
            return (f"{what}: decoding from a {kind} holding {raw.hex()[:120]} changed the caller's buffer to "
                    f"{bytes(buf).hex()[:120]}")
        if expect is not None and v0 != expect:
            return (f"{what}: the octets {raw.hex()[:120]} decode to {_short(v0)} when they are handed over in a {kind} "
                    f"and to {_short(expect)} when they are handed over as bytes")
        for pat in _clobber_patterns(raw):
            buf[:] = pat
            try:
                v1 = view(obj)
            except (SelfCheckFailure, InfraError):
                raise
            except Exception as e:  # noqa
                return (f"{what}: the object decoded from a {kind} holding {raw.hex()[:120]} can no longer be inspected after "
                        f"the caller overwrote that buffer with {pat.hex()[:120]} ({type(e).__name__}: {str(e)[:80]})")
            if v1 != v0:
                return (f"{what}: the object decoded from a {kind} (the receive buffer) holding {raw.hex()[:120]} changed when the "
                        f"caller overwrote that buffer in place with {pat.hex()[:120]}: {_short(v0)} became {_short(v1)} - "
                        f"the decoded object aliases the caller's input buffer")
    return None


def check_detached(decode: Callable[[Any], Any], raw: bytes, view: Callable[[Any], Any], what: str = "decoder",
                   expect: Any = None, memview: bool = False) -> None:
    """decode_detached, raising SelfCheckFailure"""
    err = decode_detached(decode, raw, view, what, expect=expect, memview=memview)
    if err is not None:
        raise SelfCheckFailure(err)
# probes for DERIVED VALUES that an object remembers: read every derived view (lengths, integer / hash forms, generic
# views, type tags, checksums), change the object through its documented setters / attributes / by storing something else
# in it, read every view again - what it shows then is what a FRESH object built directly with the final values shows
# --------------------------------------------------------------------------------------------
def read_views(obj: Any, views: Iterable, names: Optional[Iterable[str]] = None) -> Dict[str, Any]:
    """`views` = ordered [(name, fn(obj) -> plain value)]; evaluates the views called `names` IN THAT ORDER (default: all, in
    the order given) and returns {name: {"ok": value} | {"err": category}} - a view that raises is an outcome like any other
    (the typed accessors of a holder raise for every kind but one)."""
    table = list(views)
    by_name = dict(table)
    out: Dict[str, Any] = {}
    for n in ([v[0] for v in table] if names is None else list(names)):
        fn = by_name.get(n)
        if fn is None:
            continue
        try:
            out[n] = {"ok": fn(obj)}
        except (SelfCheckFailure, InfraError):
            raise
        except Exception as e:  # noqa
            out[n] = {"err": exc_category(e)}
    return out


def read_mutate_read(obj_factory: Callable[[], Any], views: Iterable, mutate: Callable[[Any], Any],
                     fresh_factory: Callable[[], Any], what: str, first: Optional[Iterable[str]] = None,
                     after: Optional[Iterable[str]] = None, out: Optional[Dict[str, Any]] = None) -> Optional[str]:
    """Self-contained sequence on the real code:
      obj = obj_factory(); the views `first` are read (default all; [] = none: the plain setter case);
      mutate(obj) - documented setters / public attributes / re-assignment only, exceptions propagate (a setter that
                    refuses a valid value is the caller's finding);
      the views `after` are read (default all) in that order - the ORDER is part of the case: a view that refreshes a
                    remembered value (pack() recomputes a checksum) hides a stale one read after it;
      the same views are read in the same order on fresh_factory() - the object built directly with the final values.
    Returns a description of the first difference, or None. `out` (if given) receives obj / before / after / fresh."""
    table = list(views)
    obj = obj_factory()
    before = read_views(obj, table, first)
    mutate(obj)
    now = read_views(obj, table, after)
    fresh = read_views(fresh_factory(), table, after)
    if out is not None:
        out.update(obj=obj, before=before, after=now, fresh=fresh)
    for n in now:
        if now[n] != fresh.get(n):
            return (f"{what}: after {sorted(before) if before else 'nothing'} had been read and the object was then changed through its "
                    f"documented setters, `{n}` shows {_short(now[n])} - an object built directly with the final values shows "
                    f"{_short(fresh.get(n))} (a value remembered from before the change)")
    return None


def views_after_mutation(obj_factory: Callable[[], Any], views: Iterable, mutate: Callable[[Any], Any],
                         fresh_factory: Callable[[], Any], what: str, first: Optional[Iterable[str]] = None,
                         after: Optional[Iterable[str]] = None) -> Optional[str]:
    """read all views, mutate, read all again, compare with the views of a fresh object; error string or None
    (see read_mutate_read, which also hands back the object and what it showed)"""
    return read_mutate_read(obj_factory, views, mutate, fresh_factory, what, first, after)
# probes for factories that hand out a shared mutable object (a cached `empty()` / `default()` /
# `success_params()`, a module-level singleton behind a helper function)
# --------------------------------------------------------------------------------------------
def state_snapshot(obj: Any, depth: int = 6) -> Callable[[], None]:
    """CLEAN-UP ONLY (never used for a verdict): remembers the attribute bindings of `obj` and of every instance / list /
    bytearray reachable from it, and returns a function that puts them back IN PLACE. A probe that modifies an object a
    factory handed out calls it when it is done, so that an implementation which does share that object between calls
    fails on the line that modified it and not on unrelated later lines of the same process (the lines stay
    self-contained, and a minimiser works on clean state). Reaches into `__dict__`, which the ops themselves never do."""
    import enum
    import types
    seen: Dict[int, Any] = {}
    saved: List[Any] = []

    def walk(x: Any, d: int):
        if d < 0 or id(x) in seen:
            return
        if x is None or isinstance(x, (int, float, str, bytes, bool, enum.Enum, type, types.ModuleType, types.FunctionType,
                                       types.MethodType, types.BuiltinFunctionType)):
            return
        if isinstance(x, bytearray):
            seen[id(x)] = x
            saved.append((x, bytes(x)))
        elif isinstance(x, list):
            seen[id(x)] = x
            saved.append((x, list(x)))
            for e in x:
                walk(e, d - 1)
        elif isinstance(x, (tuple, set, frozenset)):
            seen[id(x)] = x
            for e in x:
                walk(e, d - 1)
        elif isinstance(x, dict):
            seen[id(x)] = x
            saved.append((x, dict(x)))
            for e in x.values():
                walk(e, d - 1)
        elif isinstance(getattr(x, "__dict__", None), dict):
            seen[id(x)] = x
            saved.append((x, dict(x.__dict__)))
            for e in list(x.__dict__.values()):
                walk(e, d - 1)

    walk(obj, depth)

    def restore():
        for x, was in saved:
            try:
                if isinstance(x, bytearray):
                    x[:] = was
                elif isinstance(x, list):
                    x[:] = was
                elif isinstance(x, dict):
                    x.clear()
                    x.update(was)
                else:
                    x.__dict__.clear()
                    x.__dict__.update(was)
            except Exception:  # noqa
                pass
    return restore


def factory_independent(make: Callable[[], Any], view: Callable[[Any], Any], mutate: Callable[[Any], Any], what: str,
                        documented: Any = None, fresh_ok: Optional[Callable[[Any, Any], bool]] = None) -> Optional[str]:
    """Every call of a factory (classmethod / staticmethod / module-level helper that builds an object of a mutable class
    without being handed all of its state) yields an object of its own with the documented values - whatever the
    application has done in the meantime to objects the same factory returned earlier. Self-contained sequence on the
    real code:
      first = make(); a = make(); last = make()          (an earlier and a later result next to the one that is modified)
      mutate(a)  - through the documented setters / public attributes / list methods only; a refused step is ignored;
      then  view(first) and view(last) are what they were (objects from separate calls share nothing mutable),
            view(make()) - a call AFTER the modification - is what the factory returned the first time.
    `view` must return plain values (ints, strings, hex, lists, dicts) that describe everything observable and must not
    depend on object identity. `documented`: the view the factory is documented to produce (compared with the first
    result when given). `fresh_ok(view_of_new, view_of_first)`: replaces equality for factories whose result depends on
    the clock (the independence part is checked all the same).
    Returns None, or one sentence that starts with `what` (the name of the factory) and says what changed.
    Exceptions of make() propagate unchanged (the caller decides whether a refusal is a finding). The modification of `a`
    is taken back at the end (state_snapshot) so that a sharing implementation fails on this sequence only."""
    first = make()
    a = make()
    last = make()
    try:
        v_first, v_a, v_last = view(first), view(a), view(last)
    except (SelfCheckFailure, InfraError) as e:
        return f"{what}: the object it returns is not consistent in itself right after the call: {e}"
    same = fresh_ok if fresh_ok is not None else (lambda new, old: new == old)
    if documented is not None and v_first != documented:
        return f"{what}: returns {_short(v_first)}, documented is {_short(documented)}"
    if not same(v_a, v_first) or not same(v_last, v_first):
        return f"{what}: three calls in a row return different values: {_short(v_first)} / {_short(v_a)} / {_short(v_last)}"
    restore = state_snapshot(a)        # clean-up only, see there
    try:
        return _factory_independent_tail(make, view, mutate, what, same, first, a, last, v_first, v_last)
    finally:
        restore()


def _factory_independent_tail(make, view, mutate, what, same, first, a, last, v_first, v_last) -> Optional[str]:
    try:
        mutate(a)
    except (SelfCheckFailure, InfraError):
        raise
    except Exception:  # noqa   a setter that refuses makes the probe weaker, never an alarm
        pass
    for label, obj, was in (("EARLIER", first, v_first), ("LATER", last, v_last)):
        try:
            now = view(obj)
        except InfraError:
            raise
        except SelfCheckFailure as e:
            return (f"{what}: the object returned by an {label} call is no longer consistent in itself after the object returned by "
                    f"ANOTHER call was modified through its public setters / attributes: {e}")
        except Exception as e:  # noqa
            return (f"{what}: the object returned by an {label} call can no longer be inspected after the object returned by ANOTHER "
                    f"call was modified through its public setters / attributes ({type(e).__name__}: {e})")
        if now != was:
            return (f"{what}: the object returned by an {label} call changed when the object returned by ANOTHER call was modified "
                    f"through its public setters / attributes (the calls share a mutable object): {_short(was)} became {_short(now)}")
    try:
        v_new = view(make())
    except InfraError:
        raise
    except SelfCheckFailure as e:
        return f"{what}: a call made AFTER an earlier result was modified returns an object that is not consistent in itself: {e}"
    if not same(v_new, v_first):
        return (f"{what}: a call made AFTER an earlier result was modified through its public setters / attributes no longer returns "
                f"the documented value: {_short(v_first)} before, {_short(v_new)} now")
    return None


# --------------------------------------------------------------------------------------------
# probes for EQUALITY that looks at more than the fields (a remembered checksum, a length cache): "decode(encode x) == x"
# is about x in whatever state the application holds it - never encoded, encoded before, changed through its setters
# after it was encoded - and about both operand orders
# --------------------------------------------------------------------------------------------
def _eq_outcomes(x: Any, y: Any) -> List[bool]:
    return [bool(x == y), bool(y == x), bool(x != y), bool(y != x)]


def equal_in_every_state(decode: Callable[[], Any], make: Callable[[], Any], same: Iterable, different: Iterable = (),
                         what: str = "packet", decoded: str = "the decoded object", both_sides: bool = True) -> Optional[str]:
    """`==` / `!=` between objects of one class are functions of the field values and of nothing else an object remembers.
    Self-contained sequence on the real code, for every candidate:
        d = decode()                      (a new object decoded from the encoded octets; whatever it remembers comes off the wire)
        o = <candidate>                   (built by the entry of `same` / `different`)
        p = make()                        (built directly from the field values; nothing was ever computed on it)
      same:       d == o, o == d, not d != o, not o != d - and (both_sides) the same four between p and o
      different:  the opposite four between d and o and between p and o
    same      = [(label, build() -> object holding the SAME field values, reached some way: make() then pack() / calc_crc()
                  / to_space_packet(), built with other values, packed (so that whatever it remembers is out of date) and then
                  changed to the final values through the documented setters, decoded a second time ...)]
    different = [(label, build() -> object that differs from make() in exactly one field)]
    The labels are the call sequences (they are quoted in the finding). A candidate whose build() raises a documented
    refusal (ValueError family: value out of range at the edge of the domain) is skipped.
    Returns None or one sentence."""
    def candidates(items):
        for label, build in items:
            try:
                yield label, build()
            except (SelfCheckFailure, InfraError):
                raise
            except ValueError:
                continue

    for want_equal, items in ((True, same), (False, different)):
        want = [True, True, False, False] if want_equal else [False, False, True, True]
        for label, o in candidates(items):
            sides = [(decoded, decode)]
            if both_sides:
                sides.append((f"a never-encoded object with the same field values [{what}]", make))
            for side, get in sides:
                other = get()
                got = _eq_outcomes(other, o)
                if got != want:
                    names = ["x == o", "o == x", "x != o", "o != x"]
                    wrong = ", ".join(f"{n} is {g}" for n, g, w in zip(names, got, want) if g != w)
                    return (f"{what}: with x = {side} and o = {label}: {wrong} - o holds "
                            f"{'exactly the same field values as x' if want_equal else 'a different value in exactly one field'}; "
                            f"equality must be a function of the field values only (not of what an object remembers from an "
                            f"earlier pack / decode) and symmetric")
    return None


# --------------------------------------------------------------------------------------------
# probes for VIEWS / CONVERSIONS that were taken BEFORE the object changed and are looked at AFTER: what a conversion method
# returned (a generic packet made out of a specific one, a header made out of a packet) is a value of its own
# --------------------------------------------------------------------------------------------
def held_across_change(obj: Any, holders: Iterable, change: Callable[[Any], Any], what: str) -> Optional[str]:
    """Self-contained sequence on the real code:
        for every (name, take, observe, valid) of `holders`:  h = take(obj); before = observe(h)
        change(obj)            - through the documented setters / public attributes; exceptions propagate
        then for every holder: observe(h) == before (the thing taken earlier did not follow the object and did not turn into a
                               mixture of old and new), and valid(before) / valid(after) is None (an optional validity check of
                               the observed value itself, e.g. "is a well-formed packet with a matching checksum")
    `observe` returns plain values (ints, hex strings of pack()). A holder whose take() raises is left out.
    Returns None or one sentence."""
    held = []
    for name, take, observe, valid in holders:
        try:
            h = take(obj)
            before = observe(h)
        except (SelfCheckFailure, InfraError):
            raise
        except Exception:  # noqa
            continue
        if valid is not None:
            bad = valid(before)
            if bad:
                return f"{what}: {name} taken from the object: {bad}"
        held.append((name, h, observe, valid, before))
    change(obj)
    for name, h, observe, valid, before in held:
        try:
            after = observe(h)
        except (SelfCheckFailure, InfraError):
            raise
        except Exception as e:  # noqa
            return (f"{what}: {name} taken BEFORE the object was changed through its documented setters can no longer be inspected "
                    f"AFTER the change ({type(e).__name__}: {str(e)[:80]})")
        if after != before:
            tail = ""
            if valid is not None:
                bad = valid(after)
                tail = f" ({bad})" if bad else ""
            return (f"{what}: {name} taken BEFORE the object was changed through its documented setters shows something else "
                    f"AFTER the change: {_short(before)} became {_short(after)}{tail} - what a conversion returned is a value of "
                    f"its own and does not follow (parts of) the object it was made from")
    return None

# probes for PARAMETER OBJECTS a decoder / getter hands out and the application then EDITS IN PLACE (a received set of
# parameters turned into the application's own report): what is decoded afterwards - from the same octets, from an equal
# freshly packed message - still shows the documented values. `public_view` / `mutate_public` are the generic halves of such a
# probe (used with redecode_after_mutation / factory_independent): everything observable of an object through its public
# attributes as plain values, and an in-place edit of every public attribute that can be edited
# --------------------------------------------------------------------------------------------
def _public_names(obj: Any, settable_only: bool = False) -> List[str]:
    """public data attributes of an instance: dataclass fields, public instance attributes, public properties of its class
    (with settable_only: only properties that have a setter); methods and class-level constants are not data of the instance"""
    fields, props, settable = _class_data_names(type(obj))
    names = set(fields)
    d = getattr(obj, "__dict__", None)
    if d:
        names.update(n for n in d if n[:1] != "_")
    names.update(settable if settable_only else props)
    return sorted(names)


_CLASS_DATA_NAMES: Dict[type, Any] = {}


def _class_data_names(klass: type):
    """(dataclass field names, names of all public properties, names of those with a setter) of a class - the most derived
    definition of a name counts"""
    got = _CLASS_DATA_NAMES.get(klass)
    if got is None:
        import dataclasses
        seen: Dict[str, Any] = {}
        for k in klass.__mro__:
            for n, v in vars(k).items():
                if n not in seen and not n.startswith("_"):
                    seen[n] = None if not isinstance(v, property) else v.fset is not None
        fields = [f.name for f in dataclasses.fields(klass)] if dataclasses.is_dataclass(klass) else []
        got = (fields, [n for n, v in seen.items() if v is not None], [n for n, v in seen.items() if v])
        _CLASS_DATA_NAMES[klass] = got
    return got


def _is_leaf(x: Any) -> bool:
    import enum
    return x is None or isinstance(x, (bool, int, float, str, bytes, enum.Enum))


def public_view(obj: Any, depth: int = 4, package: str = "spacepackets") -> Any:
    """everything observable of `obj` through its public data attributes, as plain values that do not depend on object
    identity (enums -> int / name, octets -> hex, containers element-wise, instances of classes of `package` ->
    {attribute: view}, other instances -> their text); an attribute whose read raises is part of the view ("!<category>").
    Only ever compared with another public_view taken in the same process of an object that must show the same values."""
    t = type(obj)
    if obj is None or t is int or t is str or t is bool:
        return obj
    if t is bytes or t is bytearray or t is memoryview:
        return {"octets": bytes(obj).hex()}
    if isinstance(obj, _ENUM):
        return int(obj) if isinstance(obj, int) else f"{t.__name__}.{obj.name}"
    if isinstance(obj, (bool, int, str)):
        return obj
    if isinstance(obj, float):
        return repr(obj)
    if isinstance(obj, (bytes, bytearray, memoryview)):
        return {"octets": bytes(obj).hex()}
    if isinstance(obj, (list, tuple)):
        return [public_view(e, depth - 1, package) for e in obj]
    if isinstance(obj, (set, frozenset)):
        return sorted((public_view(e, depth - 1, package) for e in obj), key=lambda v: json.dumps(v, sort_keys=True, default=str))
    if isinstance(obj, dict):
        return {str(k): public_view(v, depth - 1, package) for k, v in obj.items()}
    if depth <= 0 or callable(obj) or isinstance(obj, type):
        return {"": t.__name__}
    if not (t.__module__ or "").startswith(package):
        # an object of the standard library (a Path, a datetime): its text, unless that is the default `<X object at 0x…>`
        plain = t.__str__ is object.__str__ and t.__repr__ is object.__repr__
        return {"": t.__name__} if plain else {"": t.__name__, "str": str(obj)}
    out: Dict[str, Any] = {"": t.__name__}
    for n in _public_names(obj):
        try:
            out[n] = public_view(getattr(obj, n), depth - 1, package)
        except (SelfCheckFailure, InfraError):
            raise
        except Exception as e:  # noqa
            out[n] = "!" + exc_category(e)
    return out


import enum as _enum_mod
_ENUM = _enum_mod.Enum


def _other_values(cur: Any) -> List[Any]:
    """values of the same kind as `cur` and different from it (candidates for an in-place edit, tried in this order)"""
    import enum
    if isinstance(cur, enum.Enum):
        members = list(type(cur))
        i = members.index(cur)
        return [m for m in members[i + 1:] + members[:i] if m is not cur and m != cur][:3]
    if isinstance(cur, bool):
        return [not cur]
    if isinstance(cur, int):
        return [c for c in (cur ^ 1, cur + 1, 0, 1) if c != cur]
    if isinstance(cur, float):
        return [cur + 1.0]
    if isinstance(cur, str):
        return [cur + "~"]
    if isinstance(cur, bytes):
        return [bytes(b ^ 0xFF for b in cur) if cur else b"\xee", cur + b"\xee"]
    return []


def mutate_public(obj: Any, depth: int = 3) -> int:
    """what an application does that re-uses a parameter object it was handed: EDITS IT IN PLACE through its public
    attributes. Every dataclass field / public instance attribute / property with a setter of `obj` that holds a plain value
    (enum member, bool, int, float, str, bytes) is assigned a different value of the same kind (a setter that refuses is tried
    with the next candidate, then left alone); attributes that hold objects, and the elements of lists / tuples / dicts, are
    edited in place the same way (a bytearray is complemented in place). Returns the number of edits made. The caller is
    expected to have taken core.state_snapshot(obj) before, to put everything back afterwards."""
    if depth < 0 or _is_leaf(obj):
        return 0
    n = 0
    if isinstance(obj, bytearray):
        if len(obj) == 0:
            return 0
        obj[:] = bytes(b ^ 0xFF for b in obj)
        return 1
    if isinstance(obj, (list, tuple, set, frozenset)):
        for e in list(obj):
            n += mutate_public(e, depth - 1)
        return n
    if isinstance(obj, dict):
        for e in list(obj.values()):
            n += mutate_public(e, depth - 1)
        return n
    if callable(obj) or isinstance(obj, (type, memoryview)):
        return 0
    for name in _public_names(obj, settable_only=True):
        try:
            cur = getattr(obj, name)
        except (SelfCheckFailure, InfraError):
            raise
        except Exception:  # noqa
            continue
        if _is_leaf(cur):
            for cand in _other_values(cur):
                if tolerant_set(obj, name, cand):
                    n += 1
                    break
        else:
            n += mutate_public(cur, depth - 1)
    return n

# --------------------------------------------------------------------------------------------
# value-directed corruptions: the burst is chosen by what the corrupted window READS AS, not by its error pattern. A random
# burst makes a given 16-bit window read as one particular value once in 65 535 draws, so a decoder that treats a
# distinguished received value specially (a trailer of 0x0000 taken for "no checksum", an all-ones word taken for "not
# set", an empty slice) is never exercised by random sampling. Pure functions of the octets; the caller filters the
# windows that lie outside its property's domain.
# --------------------------------------------------------------------------------------------
from typing import Tuple  # noqa: E402  (helpers are appended at the end of this file)


def directed_burst(raw: bytes, octet: int, width: int, value: int, max_bits: int = 16) -> Optional[Tuple[int, str]]:
    """the burst (bit offset, pattern over 0/1 with both end bits set; bit 0 = msb of octet 0) which makes the octets
    [octet, octet+width) of `raw` read as the big-endian `value`. None if they already read so, if the window does not
    lie in `raw`, or if the burst would be longer than `max_bits`."""
    if octet < 0 or width <= 0 or octet + width > len(raw) or not 0 <= value < (1 << (8 * width)):
        return None
    x = int.from_bytes(raw[octet:octet + width], "big") ^ value
    if x == 0:
        return None
    bits = format(x, f"0{8 * width}b")
    lead = len(bits) - len(bits.lstrip("0"))
    pat = bits.strip("0")
    if len(pat) > max_bits:
        return None
    return 8 * octet + lead, pat


TRAILER_VALUES16 = (0x0000, 0xFFFF, 0x0001, 0x8000, 0x0100, 0x0080)


def value_directed_bursts(raw: bytes, windows: Optional[Iterable[int]] = None, trailer_len: int = 2,
                          trailer_values: Iterable[int] = TRAILER_VALUES16,
                          window_values: Iterable[int] = (0x0000, 0xFFFF),
                          octet_values: Iterable[int] = (0x00, 0xFF)) -> List[Tuple[int, str, str]]:
    """[(bit offset, pattern, label)], without duplicates, of the bursts of at most 16 bits after which
      * the trailer (last `trailer_len` octets) reads as each of `trailer_values` ("trailer=0000", ...), its first / its
        last octet reads as 00 / ff ("trailer-first=00", ...), the octet in front of it reads as 00 / ff;
      * the byte-aligned 16-bit word at each octet index of `windows` (None: every index) reads as each of
        `window_values` ("word@12=ffff"), and the single octet there reads as each of `octet_values` ("octet@12=00").
    Windows that already read as the value are left out (nothing would be corrupted)."""
    n = len(raw)
    out: List[Tuple[int, str, str]] = []
    seen = set()

    def add(octet, width, value, label):
        b = directed_burst(raw, octet, width, value)
        if b is not None and b not in seen:
            seen.add(b)
            out.append((b[0], b[1], label))
    if n >= trailer_len > 0:
        t = n - trailer_len
        for v in trailer_values:
            if v < (1 << (8 * trailer_len)):
                add(t, trailer_len, v, f"trailer={v:0{2 * trailer_len}x}")
        for v in (0x00, 0xFF):
            add(t, 1, v, f"trailer-first={v:02x}")
            add(n - 1, 1, v, f"trailer-last={v:02x}")
            add(t - 1, 1, v, f"before-trailer={v:02x}")
    for i in (range(n - 1) if windows is None else windows):
        for v in window_values:
            add(i, 2, v, f"word@{i}={v:04x}")
        for v in octet_values:
            add(i, 1, v, f"octet@{i}={v:02x}")
    return out


# --------------------------------------------------------------------------------------------
# COLD START: the answer of an operation must not depend on what the process did before (lazily initialised tables,
# module globals filled by "whichever call comes first", import-order effects). The correspondence check evaluates every
# case in ONE process, so whatever the first few cases initialise stays initialised for all the others: a table that only
# SOME entry points fill (and others read unfilled) is never seen. A sample of the cases is therefore run again, each as
# the FIRST AND ONLY implementation operation of a FRESH interpreter (`check.py <id> --cold-case -`, the op line on stdin;
# same VERIF_REPO, same op function, same canonicalisation of the result), and the answer is compared with the one the
# same case got in this (warm) process. Cases that carry their own history (`prior`, `before`, `twin`, `hist`, `poison`,
# `mut` ... keys) replay it inside the child as well - the op handles those keys itself; core.ISOLATION / core.REUSE only
# ever raise SelfCheckFailure and do not enter a result. A Prop may name cases that must always be in the sample
# (`cold_start_cases()`: tags / op-subsets / predicates - e.g. one case per entry path of a shared helper) and cases that
# must never be (`cold_start_skip(case)`: ops that read process-global harness state).
# --------------------------------------------------------------------------------------------
COLD_MARK = "COLD-RESULT "
CHECK_PY = os.path.join(VERIF, "harness", "check.py")
COLD_START_LAST: Dict[str, Any] = {}     # what the last sample did (for tools / debugging; not part of any verdict)


def _cold_canon(case: Case, r: Dict[str, Any]) -> Any:
    """the part of a canonical implementation result that the property speaks about: the ok-payload restricted to the
    compared keys; for a refusal the documented class only where the case compares it (`errclass`), otherwise just
    "refused with a documented class" (which documented class refuses is free wherever the property does not name it);
    never the message text"""
    if "ok" in r:
        return {"ok": restrict(r["ok"], case.keys)}
    if "selfcheck" in r:
        return {"selfcheck": r["selfcheck"]}
    if "err" in r:
        if r["err"] not in DOCUMENTED:
            return {"err": r["err"]}
        if case.errclass:
            return {"err": r["err"], "errs": sorted(r.get("errs", [r["err"]]))}
        return {"err": "(documented)"}
    return r


def cold_case_child(prop: Prop, text: str) -> int:
    """body of `check.py <id> --cold-case -`: `text` is one op line (JSON object). The op is the first thing this
    interpreter does with the package (the property module has been imported - nothing has been called); the result is
    printed in the canonical form of run_impl behind COLD_MARK. Which tree the package came from is looked at AFTER the op."""
    op = json.loads(text)
    r = run_impl(prop.impl_ops(), Case(op))
    origin = None
    try:
        import spacepackets
        origin = os.path.abspath(spacepackets.__file__)
    except Exception:  # noqa
        pass
    sys.stdout.write("\n" + COLD_MARK + json.dumps({"result": r, "origin": origin, "repo": os.path.abspath(REPO)}) + "\n")
    sys.stdout.flush()
    return 0


def run_cold(prop_id: str, op: Dict[str, Any], timeout: float = 60.0) -> Dict[str, Any]:
    """the canonical implementation result of `op` as the first and only operation of a fresh interpreter, or
    {"skipped": reason} (time-out, the child did not answer, the child imported another tree)"""
    try:
        p = subprocess.run([sys.executable, CHECK_PY, prop_id, "--cold-case", "-"], input=json.dumps(op).encode(),
                           stdout=subprocess.PIPE, stderr=subprocess.PIPE, timeout=timeout, cwd=VERIF, env=dict(os.environ))
    except subprocess.TimeoutExpired:
        return {"skipped": f"no answer within {timeout:.0f} s"}
    lines = [l for l in p.stdout.decode(errors="replace").split("\n") if l.startswith(COLD_MARK)]
    if p.returncode != 0 or not lines:
        return {"skipped": f"child exit {p.returncode}: {(p.stdout[-200:] + p.stderr[-300:]).decode(errors='replace')}"}
    doc = json.loads(lines[-1][len(COLD_MARK):])
    if doc.get("origin") and not doc["origin"].startswith(doc["repo"]):
        return {"skipped": f"child imported the package from {doc['origin']}, not from {doc['repo']}"}
    return doc["result"]


def _cold_matches(sel: Any, c: Case) -> bool:
    if isinstance(sel, str):
        return c.tag == sel
    if isinstance(sel, dict):
        return all(c.op.get(k) == v for k, v in sel.items())
    if callable(sel):
        try:
            return bool(sel(c))
        except Exception:  # noqa
            return False
    return False


def cold_start_pick(prop: Prop, cases: List[Case], impl_results: List[Dict[str, Any]], n: int,
                    model_results: Optional[List[Dict[str, Any]]] = None) -> Tuple[List[int], int]:
    """(indices of the sample, how many of them the property named): every case named by prop.cold_start_cases() (first
    match of each selector), then one case per distinct op name - op names in an order drawn from (VERIF_SEED, property),
    further rounds with other tags if there are fewer op names than places - up to n further cases, all together at most
    max(n, number of cores). Only cases whose warm answer raised no finding (those are reported anyway), no op line twice,
    and of the few candidates drawn per op name one of the shorter ones (a fresh interpreter per case is affordable for
    ordinary inputs; the 70 000-octet inputs and full sweeps stay warm)."""
    seed = int(os.environ.get("VERIF_SEED", "0"))
    rng = random.Random(f"cold-start|{prop.id}|{seed}")
    skip = getattr(prop, "cold_start_skip", None)
    chosen: List[int] = []
    keys = set()

    def usable(i: int) -> bool:
        c, a = cases[i], impl_results[i]
        if "selfcheck" in a or (skip is not None and skip(c)) or case_key(c) in keys:
            return False
        return model_results is None or compare(c, a, model_results[i]) is None

    def take(i: int):
        chosen.append(i)
        keys.add(case_key(cases[i]))

    named = getattr(prop, "cold_start_cases", None)
    selectors = list(named()) if callable(named) else []
    if selectors:
        by_tag: Dict[str, List[int]] = {}
        wanted = {sel for sel in selectors if isinstance(sel, str)}
        for i, c in enumerate(cases):
            if c.tag in wanted:
                by_tag.setdefault(c.tag, []).append(i)
        for sel in selectors:
            where = by_tag.get(sel, []) if isinstance(sel, str) else range(len(cases))
            i = next((i for i in where if _cold_matches(sel, cases[i]) and usable(i)), None)
            if i is not None:
                take(i)
    n_named = len(chosen)
    total = min(n_named + n, max(n, os.cpu_count() or 1))
    by_op: Dict[str, List[int]] = {}
    for i, c in enumerate(cases):
        by_op.setdefault(c.op["op"], []).append(i)
    names = sorted(by_op)
    rng.shuffle(names)
    tags_used = {(cases[i].op["op"], cases[i].tag) for i in chosen}
    rounds = 0
    while names and len(chosen) < total and rounds < 4 * max(n, 1):
        rounds += 1
        for name in list(names):
            if len(chosen) >= total:
                break
            idx = by_op[name]
            cand = [i for i in (rng.sample(idx, 12) if len(idx) > 12 else list(idx)) if usable(i)]
            if not cand:
                if len(idx) <= 12:
                    names.remove(name)
                continue
            fresh = [i for i in cand if (name, cases[i].tag) not in tags_used]
            cand = sorted(fresh or cand, key=lambda i: len(case_key(cases[i])))
            i = rng.choice(cand[:(len(cand) + 1) // 2])
            take(i)
            tags_used.add((name, cases[i].tag))
    return chosen, n_named


def cold_start_sample(prop: Prop, cases: List[Case], impl_results: List[Dict[str, Any]], n: int,
                      model_results: Optional[List[Dict[str, Any]]] = None) -> List[Violation]:
    """Runs the sample (cold_start_pick) cold, all children at once (one thread per child, at most one per core), and
    returns a Violation of kind `cold_start` (concrete: the case itself, run as the first operation of a fresh
    interpreter, is the failing input) for every case whose cold answer differs from its warm one. A difference is only
    reported when it is a property of the implementation: the warm answer is reproduced by running the case once more in
    this process (otherwise the op is not a function of its case) and the cold answer by a second fresh interpreter
    (otherwise it is not reproducible). VERIF_COLD_START=0 switches the probe off, VERIF_COLD_START=<n> overrides n."""
    from concurrent.futures import ThreadPoolExecutor
    t0 = time.time()
    env_n = os.environ.get("VERIF_COLD_START", "")
    if env_n.strip().lstrip("-").isdigit():
        n = int(env_n)
    COLD_START_LAST.clear()
    if n <= 0 or not cases:
        return []
    chosen, n_named = cold_start_pick(prop, cases, impl_results, n, model_results)
    if not chosen:
        return []
    # children of named cases get the time they need; the others must not hold up a quick run (n <= 10)
    limits = [(60.0 if k < n_named else (4.0 if n <= 10 else 60.0)) for k in range(len(chosen))]
    with ThreadPoolExecutor(max_workers=min(len(chosen), os.cpu_count() or 1)) as pool_:
        cold = list(pool_.map(lambda kt: run_cold(prop.id, cases[kt[0]].op, kt[1]), zip(chosen, limits)))
    out: List[Violation] = []
    skipped: List[str] = []
    ops = prop.impl_ops()
    for i, r in zip(chosen, cold):
        c, warm = cases[i], impl_results[i]
        if "skipped" in r:
            skipped.append(f"{c.op['op']}: {r['skipped']}")
            continue
        if _cold_canon(c, r) == _cold_canon(c, warm):
            continue
        again = run_impl(ops, c)
        if _cold_canon(c, again) != _cold_canon(c, warm):
            skipped.append(f"{c.op['op']}: the answer in this process is not reproducible (not a function of the case)")
            continue
        r2 = run_cold(prop.id, c.op, 120.0)
        if "skipped" in r2 or _cold_canon(c, r2) != _cold_canon(c, r):
            skipped.append(f"{c.op['op']}: the answer of a fresh interpreter is not reproducible")
            continue
        model = model_results[i] if model_results is not None else warm
        out.append(Violation(
            "cold_start", c.op, model,
            {"fresh_interpreter": r, "this_process": warm, "compared_keys": c.keys, "errclass": c.errclass},
            note=(f"order dependence: run as the FIRST AND ONLY operation of a fresh interpreter (harness/check.py {prop.id} "
                  f"--cold-case -) this case is answered differently than in the process of the check, where {i} other cases "
                  f"had run before it (and where the answer was the model's); reproduced in a second fresh interpreter and, "
                  f"warm, in this process. What an operation answers must not depend on what the process did before (a "
                  f"lazily initialised table / module global that only some entry points fill). impl= shows both answers"),
            concrete=True, expect=c.expect))
    COLD_START_LAST.update(sample=len(chosen), named=n_named, differences=len(out), skipped=skipped,
                           wall_s=round(time.time() - t0, 2), ops=sorted({cases[i].op["op"] for i in chosen}))
    print(f"cold-start property={prop.id}: {len(chosen)} cases re-run as the first operation of a fresh interpreter "
          f"({COLD_START_LAST['named']} named by the property), {len(out)} answered differently, {len(skipped)} not comparable"
          + (f" [{'; '.join(skipped)[:300]}]" if skipped else "") + f", {COLD_START_LAST['wall_s']} s")
    return out


def cold_replay(prop: Prop, path: str, doc: Dict[str, Any]) -> int:
    """--replay of a `cold_start` finding: the case is run cold again (fresh interpreter) and compared with the model and
    with the warm answer recorded in the file"""
    info = doc.get("actual_implementation_output") or {}
    c = Case(doc["case"], doc.get("expect", "valid"), errclass=bool(info.get("errclass", False)), keys=info.get("compared_keys"))
    r = run_cold(prop.id, c.op, 600.0)
    if "skipped" in r:
        raise InfraError("cold replay: " + r["skipped"])
    b = run_driver([json.dumps(c.op)])[0]
    warm = info.get("this_process")
    print("case:", json.dumps(c.op))
    print("implementation (first and only operation of a fresh interpreter):", json.dumps(r))
    print("implementation (recorded in the process of the check run, other cases before it):", json.dumps(warm))
    print("model:", json.dumps(b))
    v = compare(c, r, b)
    differs = (isinstance(warm, dict) and compare(c, warm, b) is None and _cold_canon(c, r) != _cold_canon(c, warm))
    if v is None and not differs:
        print("replay: no violation on the current tree")
        return 0
    tail = "" if (v is None or v.concrete) else " no-failing-input-found"
    print(f"VIOLATION property={prop.id} replay={os.path.relpath(path, VERIF)}{tail}")
    return 1


# `--replay` of a file whose kind is `cold_start` runs the case cold again; every other file as before. (main_check looks
# the name `do_replay` up when it is called, so this definition - the file is append-only - is the one it finds.)
_do_replay_warm = do_replay


def do_replay(prop: Prop, path: str) -> int:  # noqa: F811
    full = path if os.path.isabs(path) else os.path.join(VERIF, path)
    try:
        doc = json.load(open(full))
    except (OSError, ValueError):
        doc = {}
    if doc.get("kind") == "cold_start" and doc.get("case") is not None:
        return cold_replay(prop, full, doc)
    return _do_replay_warm(prop, path)


# --------------------------------------------------------------------------------------------
# NAME-LEVEL use of the library's enumerations. Applications are written against the NAMES of the members
# (`FaultHandlerCode.NOTICE_OF_CANCELLATION`), not against their numbers; a case that carries the integer code of a member and
# converts it with `Enum(code)` packs the same octet whatever NAME that number has, so a member that was swapped / renumbered /
# turned into an alias of another one is invisible to it. The tables below give, for every enumeration of the library that
# stands for a field of a standard, the code the STANDARD assigns to each (library spelling of a) standard name - the same
# numbers the Lean Spec tables use. An implementation op
#   * obtains the member to pass to a constructor / setter BY ITS STANDARD NAME (`std_member`), and
#   * compares what a decoder / getter hands back with the members OF THOSE NAMES (`std_code`): `decoded == Enum.NAME` is True
#     exactly when the code is the standard's code for NAME.
# Codes the standard gives no name, and names this version of the library does not define, go in / come out as integers as
# before (never an alarm). The Lean op answers (integers per the standard) stay the reference.
# --------------------------------------------------------------------------------------------
STD_NAMES: Dict[str, Dict[str, int]] = {
    # ---- CCSDS 727.0-B-5 (CFDP) table 5-1, fixed PDU header
    "PduType": {"FILE_DIRECTIVE": 0, "FILE_DATA": 1},
    "Direction": {"TOWARDS_RECEIVER": 0, "TOWARDS_SENDER": 1},
    "TransmissionMode": {"ACKNOWLEDGED": 0, "UNACKNOWLEDGED": 1},
    "CrcFlag": {"NO_CRC": 0, "WITH_CRC": 1},
    "LargeFileFlag": {"NORMAL": 0, "LARGE": 1},
    "SegmentationControl": {"NO_RECORD_BOUNDARIES_PRESERVATION": 0, "RECORD_BOUNDARIES_PRESERVATION": 1},
    "SegmentMetadataFlag": {"NOT_PRESENT": 0, "PRESENT": 1},
    # table 5-4 directive codes (0x0A, the library's `NONE`, is not a code of the standard: it stays an integer)
    "DirectiveType": {"EOF_PDU": 4, "FINISHED_PDU": 5, "ACK_PDU": 6, "METADATA_PDU": 7, "NAK_PDU": 8, "PROMPT_PDU": 9,
                      "KEEP_ALIVE_PDU": 12},
    # table 5-5 condition codes (1001 'invalid file structure' is a code of the standard this library gives no name;
    # NO_CONDITION_FIELD = -1 is the library's own "no such field" marker)
    "ConditionCode": {"NO_CONDITION_FIELD": -1, "NO_ERROR": 0, "POSITIVE_ACK_LIMIT_REACHED": 1, "KEEP_ALIVE_LIMIT_REACHED": 2,
                      "INVALID_TRANSMISSION_MODE": 3, "FILESTORE_REJECTION": 4, "FILE_CHECKSUM_FAILURE": 5, "FILE_SIZE_ERROR": 6,
                      "NAK_LIMIT_REACHED": 7, "INACTIVITY_DETECTED": 8, "INVALID_FILE_STRUCTURE": 9, "CHECK_LIMIT_REACHED": 10,
                      "UNSUPPORTED_CHECKSUM_TYPE": 11, "SUSPEND_REQUEST_RECEIVED": 14, "CANCEL_REQUEST_RECEIVED": 15},
    # 5.2.3 Finished PDU
    "DeliveryCode": {"DATA_COMPLETE": 0, "DATA_INCOMPLETE": 1},
    "FileStatus": {"DISCARDED_DELIBERATELY": 0, "DISCARDED_FILESTORE_REJECTION": 1, "FILE_RETAINED": 2, "FILE_STATUS_UNREPORTED": 3},
    # 5.2.4 ACK PDU
    "TransactionStatus": {"UNDEFINED": 0, "ACTIVE": 1, "TERMINATED": 2, "UNRECOGNIZED": 3},
    # 5.2.7 Prompt PDU
    "ResponseRequired": {"NAK": 0, "KEEP_ALIVE": 1},
    # 5.2.5 Metadata PDU / SANA checksum identifiers
    "ChecksumType": {"MODULAR": 0, "CRC_32_PROXIMITY_1": 1, "CRC_32C": 2, "CRC_32": 3, "NULL_CHECKSUM": 15},
    # 5.3 File Data PDU, record continuation state
    "RecordContinuationState": {"NO_START_NO_END": 0, "START_WITHOUT_END": 1, "END_WITHOUT_START": 2, "START_AND_END": 3},
    # 5.4 TLV types, table 5-16 action codes, table 5-18 status codes (action code * 16 + status nibble), table 5-19 handler codes
    "TlvType": {"FILESTORE_REQUEST": 0, "FILESTORE_RESPONSE": 1, "MESSAGE_TO_USER": 2, "FAULT_HANDLER": 4, "FLOW_LABEL": 5,
                "ENTITY_ID": 6},
    "FilestoreActionCode": {"CREATE_FILE_SNM": 0, "DELETE_FILE_SNN": 1, "RENAME_FILE_SNP": 2, "APPEND_FILE_SNP": 3,
                            "REPLACE_FILE_SNP": 4, "CREATE_DIR_SNN": 5, "REMOVE_DIR_SNN": 6, "DENY_FILE_SMM": 7, "DENY_DIR_SNN": 8},
    "FilestoreResponseStatusCode": {
        "SUCCESS": 0, "NOT_PERFORMED": 15, "APPEND_FROM_DATA_FILE_NOT_EXISTS": 2, "CREATE_SUCCESS": 0, "CREATE_NOT_ALLOWED": 1,
        "CREATE_NOT_PERFORMED": 15, "DELETE_SUCCESS": 16, "DELETE_FILE_DOES_NOT_EXIST": 17, "DELETE_NOT_ALLOWED": 31,
        "RENAME_SUCCESS": 32, "RENAME_OLD_FILE_DOES_NOT_EXIST": 33, "RENAME_NEW_FILE_DOES_EXIST": 34, "RENAME_NOT_ALLOWED": 35,
        "RENAME_NOT_PERFORMED": 47, "APPEND_SUCCESS": 48, "APPEND_FILE_NAME_ONE_NOT_EXISTS": 49,
        "APPEND_FILE_NAME_TWO_NOT_EXISTS": 50, "APPEND_NOT_ALLOWED": 51, "APPEND_NOT_PERFORMED": 63, "REPLACE_SUCCESS": 64,
        "REPLACE_FILE_NAME_ONE_TO_BE_REPLACED_DOES_NOT_EXIST": 65, "REPLACE_FILE_NAME_TWO_REPLACE_SOURCE_NOT_EXIST": 66,
        "REPLACE_NOT_ALLOWED": 67, "REPLACE_NOT_PERFORMED": 79, "CREATE_DIR_SUCCESS": 80, "CREATE_DIR_CAN_NOT_BE_CREATED": 81,
        "CREATE_DIR_NOT_PERFORMED": 95, "REMOVE_DIR_SUCCESS": 96, "REMOVE_DIR_DOES_NOT_EXIST": 97, "REMOVE_DIR_NOT_ALLOWED": 98,
        "REMOVE_DIR_NOT_PERFORMED": 111, "DENY_FILE_DEL_SUCCESS": 112, "DENY_FILE_DEL_NOT_ALLOWED": 114,
        "DENY_FILE_DEL_NOT_PERFORMED": 127, "DENY_DIR_DEL_SUCCESS": 128, "DENY_DIR_DEL_NOT_ALLOWED": 130,
        "DENY_DIR_DEL_NOT_PERFORMED": 143, "INVALID": -1},
    "FaultHandlerCode": {"NOTICE_OF_CANCELLATION": 1, "NOTICE_OF_SUSPENSION": 2, "IGNORE_ERROR": 3, "ABANDON_TRANSACTION": 4},
    # 6.2 / 6.3 reserved CFDP messages (table 6-1 message types; 0x0A 'originating transaction ID' is the module constant
    # ORIGINATING_TRANSACTION_ID_MSG_TYPE_ID, see std_constant; 0x15 is the library's documented custom listing-parameters code)
    "ProxyMessageType": {"PUT_REQUEST": 0, "MSG_TO_USER": 1, "FS_REQUEST": 2, "FAULT_HANDLER_OVERRIDE": 3, "TRANSMISSION_MODE": 4,
                         "FLOW_LABEL": 5, "SEGMENTATION_CTRL": 6, "PUT_RESPONSE": 7, "FS_RESPONSE": 8, "PUT_CANCEL": 9,
                         "CLOSURE_REQUEST": 11},
    "DirectoryOperationMessageType": {"LISTING_REQUEST": 16, "LISTING_RESPONSE": 17, "CUSTOM_LISTING_PARAMETERS": 21},
    # ---- CCSDS 732.1-B-2 (USLP) 4.1.2 primary header, 4.1.4.2 TFDF header (table 4-3 construction rules, UPID per SANA)
    "SourceOrDestField": {"SOURCE": 0, "DEST": 1},
    "BypassSequenceControlFlag": {"SEQ_CTRLD_QOS": 0, "EXPEDITED_QOS": 1},
    "ProtocolCommandFlag": {"USER_DATA": 0, "PROTOCOL_INFORMATION": 1},
    "TfdzConstructionRules": {"FpPacketSpanningMultipleFrames": 0, "FpFixedStartOfMapaSDU": 1, "FpContinuingPortionOfMapaSDU": 2,
                              "VpOctetStream": 3, "VpStartingSegment": 4, "VpContinuingSegment": 5, "VpLastSegment": 6,
                              "VpNoSegmentation": 7},
    "UslpProtocolIdentifier": {"SPACE_PACKETS_ENCAPSULATION_PACKETS": 0, "COP_1_CTRL_COMMANDS": 1, "COP_2_CTRL_COMMANDS": 2,
                               "SDLS_CTRL_COMMANDS": 3, "USER_DEFINED_OCTET_STREAM": 4, "MISSION_SPECIFIC_INFO_1_MAPA_SDU": 5,
                               "PRIXMITY_1_PSEUDO_PACKET_ID_1": 6, "PROXIMITY_1_SPDUS": 7, "PRIXMITY_1_PSEUDO_PACKET_ID_2": 8,
                               "IDLE_DATA": 31},
    # ---- CCSDS 133.0-B-2 (space packet) 4.1.3: packet type, sequence flags
    "PacketType": {"TM": 0, "TC": 1},
    "SequenceFlags": {"CONTINUATION_SEGMENT": 0, "FIRST_SEGMENT": 1, "LAST_SEGMENT": 2, "UNSEGMENTED": 3},
    # ---- ECSS-E-ST-70-41C: TM/TC secondary header version number, service types
    "PusVersion": {"ESA_PUS": 0, "PUS_A": 1, "PUS_C": 2},
    "PusService": {"S1_VERIFICATION": 1, "S2_RAW_CMD": 2, "S3_HOUSEKEEPING": 3, "S5_EVENT": 5, "S6_MEMORY_MGMT": 6,
                   "S8_FUNC_CMD": 8, "S9_TIME_MGMT": 9, "S11_TC_SCHED": 11, "S15_TM_STORAGE": 15, "S17_TEST": 17,
                   "S20_PARAMETER": 20, "S23_FILE_MGMT": 23},
    # request verification service, message subtypes TM[1,1] .. TM[1,8] (spacepackets.ecss.pus_1_verification.Subservice)
    "pus_1_verification.Subservice": {"TM_ACCEPTANCE_SUCCESS": 1, "TM_ACCEPTANCE_FAILURE": 2, "TM_START_SUCCESS": 3,
                                      "TM_START_FAILURE": 4, "TM_STEP_SUCCESS": 5, "TM_STEP_FAILURE": 6,
                                      "TM_COMPLETION_SUCCESS": 7, "TM_COMPLETION_FAILURE": 8},
}
# (names other versions of the library use for the same enumerations)
STD_NAMES["FileDeliveryStatus"] = STD_NAMES["FileStatus"]
STD_NAMES["PromptResponseRequired"] = STD_NAMES["ResponseRequired"]
# module-level integer constants that stand for a code of a standard: (attribute name, code)
STD_CONSTANTS: Dict[str, int] = {"ORIGINATING_TRANSACTION_ID_MSG_TYPE_ID": 0x0A}


def std_table(enum_cls: Any) -> Dict[str, int]:
    """the name -> standard-code table of an enumeration class of the library ({} when there is none)"""
    try:
        return _STD_TABLE_OF[enum_cls]
    except (KeyError, TypeError):
        pass
    n = getattr(enum_cls, "__name__", "")
    qual = (getattr(enum_cls, "__module__", "") or "").rsplit(".", 1)[-1] + "." + n
    t = STD_NAMES.get(qual) or STD_NAMES.get(n) or {}
    try:
        _STD_TABLE_OF[enum_cls] = t
    except TypeError:
        pass
    return t


def _std_named_members(enum_cls: Any, table: Dict[str, int]) -> List[Any]:
    """[(name, standard code, member of that NAME)] for the names of `table` the class defines (aliases included)"""
    key = (enum_cls, id(table))
    got = _STD_CACHE.get(key)
    if got is None:
        members = getattr(enum_cls, "__members__", None)
        got = []
        for name, code in table.items():
            m = members.get(name) if members is not None else getattr(enum_cls, name, None)
            if m is not None:
                got.append((name, code, m))
        _STD_CACHE[key] = got
        _STD_KEEP.append(table)         # (keeps id(table) valid for the life of the cache)
    return got


_STD_CACHE: Dict[Any, Any] = {}
_STD_TABLE_OF: Dict[Any, Dict[str, int]] = {}
_STD_KEEP: List[Any] = []
_STD_MEMBER_CACHE: Dict[Any, Any] = {}
_STD_CODE_CACHE: Dict[Any, Any] = {}


def std_member(enum_cls: Any, code: Any, std_table_: Optional[Dict[str, int]] = None, strict: bool = False) -> Any:
    """what an application passes for the code `code` of a field of the standard: the member of `enum_cls` that carries the
    STANDARD NAME of the code (`std_table_`: name -> code per the standard; default: the table of STD_NAMES for the class).
    A code with several standard names (FilestoreResponseStatusCode.SUCCESS / CREATE_SUCCESS) is spelled with any of them
    by applications: the member returned is one whose value is not the code, if there is such a name, else the first.
    A code the standard gives no name, or whose name(s) this version of the library does not define, goes in as before:
    `enum_cls(code)` - with strict=False the plain integer when that raises ValueError (the library takes both)."""
    key = (enum_cls, id(std_table_), code if isinstance(code, int) else None, strict)
    if key[2] is not None:
        try:
            return _STD_MEMBER_CACHE[key]
        except KeyError:
            pass
    table = std_table(enum_cls) if std_table_ is None else std_table_
    named = [m for (_, c, m) in _std_named_members(enum_cls, table) if c == code] if isinstance(code, int) else []
    if named:
        out = named[0]
        for m in named:
            try:
                if int(m) != code:
                    out = m
                    break
            except (TypeError, ValueError):
                out = m
                break
    else:
        try:
            out = enum_cls(code)
        except ValueError:
            if strict:
                raise
            out = code
    if key[2] is not None:
        _STD_MEMBER_CACHE[key] = out
    return out


def std_code(enum_cls: Any, value: Any, std_table_: Optional[Dict[str, int]] = None, what: str = "") -> int:
    """`int(value)` for a value a decoder / getter / attribute of the library hands back for a field of the standard, after
    the NAME-level clause was checked on it: for every standard name N the library defines,
        value == enum_cls.N   is True exactly when   int(value) is the standard's code for N
    (the integer itself is compared with the Lean answer by the framework, so together: the comparison an application makes
    with the named member is right exactly when the wire code is the standard's code of that name). IntEnum members and plain
    ints compare by value, so a decoder may hand back either. Raises SelfCheckFailure."""
    iv = int(value)
    key = (enum_cls, id(std_table_), type(value), iv)
    err = _STD_CODE_CACHE.get(key, 0)
    if err is None:
        return iv
    if err == 0:
        err = None
        table = std_table(enum_cls) if std_table_ is None else std_table_
        for name, code, m in _std_named_members(enum_cls, table):
            same = bool(value == m)
            if same != (code == iv):
                en = getattr(enum_cls, "__name__", str(enum_cls))
                try:
                    mv = int(m)
                except (TypeError, ValueError):
                    mv = m
                if same:
                    err = (f"the code {iv} compares EQUAL to {en}.{name} (= {mv}), but the standard's code for {name} is {code}"
                           f" and {iv} is " + (f"its code for {'/'.join(n for n, c in table.items() if c == iv)}"
                                               if iv in table.values() else "none of its named codes"))
                else:
                    err = (f"the code {iv} is the standard's code for {name}, but it does NOT compare equal to {en}.{name} "
                           f"(= {mv})")
                break
        _STD_CODE_CACHE[key] = err
    if err is not None:
        raise SelfCheckFailure((what + ": " if what else "") + err + " - code written against the member NAMES reads another "
                               "meaning than the standard gives this code")
    return iv


def std_constant(module: Any, name: str, code: int) -> Any:
    """a module-level constant of the library that stands for the standard's code `code`, fetched BY NAME (the plain code when
    this version of the library does not define the name)"""
    v = getattr(module, name, None)
    return code if v is None else v


def std_table_diffs(enum_classes: Iterable[Any]) -> List[str]:
    """table-sync form of the same tie: for every standard name the library defines, `Enum.NAME = <value> (standard: <code>)`
    where they differ. Names the library lacks and members the standard does not name are not differences."""
    d: List[str] = []
    for en in enum_classes:
        table = std_table(en)
        for name, code, m in _std_named_members(en, table):
            try:
                mv = int(m)
            except (TypeError, ValueError):
                mv = m
            if mv != code:
                d.append(f"{getattr(en, '__name__', en)}.{name} = {mv} (standard: {code})")
    return d


# --------------------------------------------------------------------------------------------
# TYPE-COERCION dimension of every argument an op hands to the library (case key "forms"). The fields of the standards are
# VALUES (a TLV type is an octet, a condition code a nibble, a flag a bit, a value field a string of octets); the library's
# API takes each of them in several Python forms today - the enum member, the plain `int` of the same value, a member of
# ANOTHER IntEnum class with that value, bool / int for a flag, bytes / bytearray for octets - and what it encodes, accepts,
# refuses and compares equal must not depend on the form (a guard written `x is not Enum.M`, a dict keyed by the member object,
# `type(x) is ...` tests, `isinstance(x, bytes)` ... are right for one form only). A case carries the form of each argument in
# its own "forms" key ({argument name: form}; in a nested object description - `held`, `a`, `b` - in that object's "forms"),
# which the Lean ops do not read: the Lean answer for the VALUES stays the reference, whatever the form. Only forms the
# unchanged library accepts are ever generated (tables in the property modules); without the key every argument goes in as
# before (member by standard name / bytes / bool).
# --------------------------------------------------------------------------------------------
CODE_FORMS = ("member", "int", "other")     # enum-valued argument
FLAG_FORMS = ("bool", "int")                # flag argument
OCTET_FORMS = ("bytes", "bytearray")        # octet-string argument (memoryview only where the signature names it)
_FOREIGN: List[Any] = []


def foreign_member(code: Any) -> Any:
    """a member of an IntEnum class that is NOT the library's with the numeric value `code` (-1..255; None otherwise)"""
    if not _FOREIGN:
        import enum
        _FOREIGN.append(enum.IntEnum("ForeignCode", {("C%d" % i if i >= 0 else "N%d" % -i): i for i in range(-1, 256)}))
    try:
        return _FOREIGN[0](code)
    except ValueError:
        return None


def forms_of(a: Any) -> Dict[str, Any]:
    f = a.get("forms") if isinstance(a, dict) else None
    return f if isinstance(f, dict) else {}


def code_form(enum_cls: Any, code: Any, form: Optional[str] = None, std_table_: Optional[Dict[str, int]] = None,
              strict: bool = False) -> Any:
    """the argument an application passes for the code `code` of a field of the standard, in the form `form`:
    'member' / None: the member with the standard name of the code (std_member); 'int': the plain int `code`; 'other': the
    member of a foreign IntEnum class with that value. A code that has no member in `enum_cls` goes in exactly as without a
    form (std_member: the plain int, or ValueError with strict=True), so the domain of the op does not change."""
    m = std_member(enum_cls, code, std_table_, strict)
    if form in (None, "member") or not isinstance(code, int) or isinstance(code, bool):
        return m
    if not hasattr(m, "name"):          # (no member of that code: already the plain int)
        return m
    if form == "int":
        return int(code)
    if form == "other":
        o = foreign_member(code)
        return int(code) if o is None else o
    raise InfraError(f"unknown code form {form!r}")


def plain_code_form(value: Any, code: int, form: Optional[str] = None) -> Any:
    """like code_form for a code whose 'member' form the caller has already looked up (`value`): a module constant or a
    member of one of several enumerations"""
    if form in (None, "member") or not isinstance(code, int) or isinstance(code, bool):
        return value
    if form == "int":
        return int(code)
    if form == "other":
        o = foreign_member(code)
        return value if o is None else o
    raise InfraError(f"unknown code form {form!r}")


def flag_form(value: Any, form: Optional[str] = None) -> Any:
    """a flag argument: 'bool' / None: True / False for 1 / 0; 'int': the plain int 1 / 0 (other values unchanged)"""
    if isinstance(value, bool) or value in (0, 1):
        return int(value) if form == "int" else bool(value)
    return value


def octets_form(data: Any, form: Optional[str] = None) -> Any:
    """an octet-string argument as bytes (default), bytearray or memoryview (of an immutable copy)"""
    if form in (None, "bytes"):
        return bytes(data)
    if form == "bytearray":
        return bytearray(data)
    if form == "memoryview":
        return memoryview(bytes(data))
    raise InfraError(f"unknown octets form {form!r}")


def forms_rng(rng: random.Random) -> random.Random:
    """an independent stream for the choice of forms, derived from the state of the generator's stream WITHOUT drawing from it
    (the cases generated from `rng` are the same with and without the forms dimension)"""
    return random.Random(hash(tuple(rng.getstate()[1])) & 0xFFFFFFFFFFFF)      # (a tuple of ints: the same in every process)


def draw_forms(frng: random.Random, spec: Dict[str, Iterable[str]], force: bool = True) -> Dict[str, str]:
    """one form per argument of `spec` ({argument: forms, the first one being the default}); with force=True at least one
    argument is not in its default form (if any argument has more than one form). Default forms are left out."""
    names = [k for k, v in spec.items() if len(tuple(v)) > 1]
    if not names:
        return {}
    out = {k: frng.choice(tuple(spec[k])) for k in names}
    if force and all(out[k] == tuple(spec[k])[0] for k in names):
        k = frng.choice(names)
        out[k] = frng.choice(tuple(spec[k])[1:])
    return {k: v for k, v in out.items() if v != tuple(spec[k])[0]}


def case_with_forms(c: Case, forms: Dict[str, Any], nested: Optional[Dict[str, Dict[str, Any]]] = None, tag: str = "+forms") -> Case:
    """a copy of the case with the "forms" key set (nested: {key of a nested object description: its forms})"""
    op = dict(c.op)
    if forms:
        op["forms"] = dict(forms)
    for k, f in (nested or {}).items():
        if f and isinstance(op.get(k), dict):
            op[k] = {**op[k], "forms": dict(f)}
    return Case(op, c.expect, errclass=c.errclass, tag=(c.tag + tag) if c.tag else tag.lstrip("+"), keys=c.keys)
