"""generator helpers: boundary pools, hex helpers"""
import random
from typing import List


def hx(b) -> str:
    return bytes(b).hex()


def unhx(s: str) -> bytes:
    return bytes.fromhex(s)


def pool(maxv: int, rng: random.Random, extra: int = 2) -> List[int]:
    """in-range boundary pool for [0, maxv] plus a few random members"""
    s = {0, 1, maxv - 1, maxv, maxv // 2, maxv // 2 + 1}
    k = 1
    while (1 << k) <= maxv:
        s.update({(1 << k) - 1, 1 << k})
        k += 4
    for _ in range(extra):
        s.add(rng.randint(0, maxv))
    return sorted(v for v in s if 0 <= v <= maxv)


def out_pool(maxv: int, rng: random.Random) -> List[int]:
    """out-of-range values for a field with range [0, maxv]"""
    return [-1, -2, -(1 << 40), maxv + 1, maxv + 2, 2 * maxv + 1, (maxv + 1) * 256, 1 << 70, -rng.randint(1, 1 << 20), maxv + rng.randint(1, 1 << 20)]


def rbytes(rng: random.Random, n: int) -> bytes:
    return bytes(rng.getrandbits(8) for _ in range(n)) if n < 64 else rng.randbytes(n)
